#!/bin/bash
# Run once after a fresh restore, offline: checks that the tools the checks need are present and that the specification
# parses and translates.  Nothing is cached that a check does not redo itself (checks rebuild drivers from /repo).
set -e
cd "$(dirname "$0")"
for t in java pcal tla-sany g++ ccache python3; do command -v $t >/dev/null || { echo "missing tool: $t"; exit 1; }; done
mkdir -p work build evidence
W=$(mktemp -d work/setup.XXXXXX)
python3 - "$W" <<'PY'
import sys, os, subprocess
sys.path.insert(0, "harness"); sys.path.insert(0, "gen")
import tlc, core, gen
wd = sys.argv[1]
v = core.Validator(wd)
for f in sorted(os.listdir("corpus")):
    if f.endswith(".json"):
        d = core.load_def(f[:-5]); v.ensure_def(d)
d = core.load_def("hier2")
n = tlc.write_mc(wd, "hier2", "back", "mc", v.vars, maxcalls=2, budget=0, apis=("start", "pe"), dirops=(), direvs=(), invariants=["P_C01"], name="MC_setup")
rc, out, t = tlc.run_tlc(wd, n, workers=2, timeout=300)
assert rc == 0, out[-2000:]
print("setup ok: spec translates, %d corpus machines, TLC runs (%s)" % (len(v.defs), tlc.parse_stats(out)))
PY
rm -rf "$W"
