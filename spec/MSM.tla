---- MODULE MSM ----
(***************************************************************************)
(* Operational specification of the Boost.MSM run-to-completion engine.    *)
(* One PlusCal algorithm describes back / back11 / backmp11 with their     *)
(* compile policies; the machine being run is the constant Def (generated  *)
(* from corpus/*.json by gen/gen.py).  Each procedure mirrors one C++      *)
(* function on the event-processing path (see DESIGN.md section 4).        *)
(*                                                                         *)
(* Mode = "mc":    the environment (API calls, guard results, directives   *)
(*                 executed inside behaviours) is nondeterministic.        *)
(* Mode = "trace": every choice is read from the NDJSON trace recorded     *)
(*                 from the real code; every callback must match a line.   *)
(***************************************************************************)
EXTENDS Integers, Sequences, TLC, Json, IOUtils, FiniteSets
CONSTANTS Mode, Cfg, Def, MaxCalls, Budget, BudgetPerCall, NInst, Apis, DirOps, DirEvs

Trace == IF Mode = "trace" THEN ndJsonDeserialize(IOEnv.TRACE) ELSE <<>>
NL == Len(Trace)

Insts == 0..(NInst - 1)
Machines == DOMAIN Def.M
MD(mm) == Def.M[mm]
NReg(mm) == Len(MD(mm).init)
StatesOf(mm) == DOMAIN MD(mm).kind
IsSub(mm, st) == MD(mm).kind[st] = "sub"
IsExitPt(mm, st) == MD(mm).kind[st] = "exitpt"
RegOf(mm, st) == MD(mm).region[st]
HistKind(mm) == MD(mm).hist.kind
HistEvents(mm) == MD(mm).hist.events
Policy(mm) == MD(mm).policy
NoneOcc == [t |-> "none", p |-> 0]
StartOcc == [t |-> "start", p |-> 0]
StopOcc == [t |-> "stop", p |-> 0]
Fam == Cfg.fam                      \* "back" (also back11) or "mp11"
IsB == Fam = "back"
IsM == Fam = "mp11"

\* ---------------------------------------------------------------- events
RECURSIVE IsBaseOf(_, _)
IsBaseOf(b, et) == IF et \notin DOMAIN Def.base THEN FALSE
                   ELSE LET pb == Def.base[et] IN pb # "" /\ (pb = b \/ IsBaseOf(b, pb))
\* does a row with trigger rev react to an occurrence of dynamic type et ?
Matches(rev, et) ==
   \/ rev = et
   \/ /\ rev \in {"any", "anyu"} /\ et # "none" /\ ~Cfg.fct       \* boost::any / std::any, and a user-declared Kleene type
   \/ /\ IsBaseOf(rev, et) /\ ~(IsM /\ Cfg.fct)
Convertible(et, xev) == et = xev \/ IsBaseOf(xev, et)

\* ---------------------------------------------------------------- sequences helpers
RevIdx(sq, P(_)) == LET n == Len(sq)
                        RECURSIVE go(_, _)
                        go(k, acc) == IF k = 0 THEN acc ELSE go(k-1, IF P(sq[k]) THEN Append(acc, k) ELSE acc)
                    IN go(n, <<>>)
RECURSIVE AddNew(_, _)
AddNew(acc, xs) == IF xs = <<>> THEN acc
                   ELSE AddNew(IF \E k \in 1..Len(acc) : acc[k] = Head(xs) THEN acc ELSE Append(acc, Head(xs)), Tail(xs))
RECURSIVE SetAsSeq(_)
SetAsSeq(S) == IF S = {} THEN <<>> ELSE LET x == CHOOSE y \in S : TRUE IN <<x>> \o SetAsSeq(S \ {x})

\* ---------------------------------------------------------------- state ids (documented numbering)
\* sources top-down, then targets top-down, then remaining initial states, then the rest (explicit creation)
IdSeq(mm) == LET tb == MD(mm).table
                 srcs == [k \in 1..Len(tb) |-> tb[k].src]
                 tgts == [k \in 1..Len(tb) |-> tb[k].tgt]
                 base == AddNew(AddNew(AddNew(<<>>, srcs), tgts), MD(mm).init)
                 rest == StatesOf(mm) \ {base[k] : k \in 1..Len(base)}
             IN base \o SetAsSeq(rest)
IdOf(mm, st) == (CHOOSE k \in 1..Len(IdSeq(mm)) : IdSeq(mm)[k] = st) - 1
Ids(mm, act) == [r \in 1..Len(act) |-> IdOf(mm, act[r])]

\* ---------------------------------------------------------------- result codes (bit sets 1 handled, 2 guard reject, 4 deferred)
HasBit(x, b) == (x \div b) % 2 = 1
BOr(x, y) == LET bit(b) == IF HasBit(x, b) \/ HasBit(y, b) THEN b ELSE 0 IN bit(1) + bit(2) + bit(4)
Consumed(x) == HasBit(x, 1) \/ HasBit(x, 4)
Mask5(x) == (IF HasBit(x,1) THEN 1 ELSE 0) + (IF HasBit(x,4) THEN 4 ELSE 0)

\* ---------------------------------------------------------------- candidates
RECURSIVE SubReacts(_, _)
\* does submachine sm (recursively) own a row reacting to et ?  (forwarding row / forward_transition exists)
SubReacts(sm, et) ==
   \/ \E k \in 1..Len(MD(sm).table) : Matches(MD(sm).table[k].ev, et)
   \/ \E k \in 1..Len(MD(sm).smtab) : Matches(MD(sm).smtab[k].ev, et)
   \/ \E st \in StatesOf(sm) : \/ \E k \in 1..Len(MD(sm).itab[st]) : Matches(MD(sm).itab[st][k].ev, et)
                               \/ IsSub(sm, st) /\ SubReacts(st, et)
DefersEv(mm, st, et) == et # "none" /\ (et \in MD(mm).defers[st] \/ "any" \in MD(mm).defers[st])
NeedsFwd(mm, st, et) ==
   IF IsM /\ Cfg.fct THEN TRUE
   ELSE IF IsB /\ Cfg.fct THEN et # "none" /\ ~DefersEv(mm, st, et) /\ SubReacts(st, et)   \* no call_submachine cell for completion events
   ELSE SubReacts(st, et)
\* candidates of state st (region dispatch) in priority order
Cands(mm, st, et) ==
   LET fwd == IF IsSub(mm, st) /\ NeedsFwd(mm, st, et) THEN << [c |-> "fwd", tab |-> "", st |-> st, idx |-> 0] >> ELSE <<>>
       it  == MD(mm).itab[st]
       iti == RevIdx(it, LAMBDA rw : Matches(rw.ev, et))
       itc == [k \in 1..Len(iti) |-> [c |-> "row", tab |-> "itab", st |-> st, idx |-> iti[k]]]
       tb  == MD(mm).table
       tbi == RevIdx(tb, LAMBDA rw : rw.src = st /\ Matches(rw.ev, et))
       tbc == [k \in 1..Len(tbi) |-> [c |-> "row", tab |-> "table", st |-> st, idx |-> tbi[k]]]
       dfc == IF IsB /\ Cfg.fct /\ DefersEv(mm, st, et) THEN << [c |-> "defer", tab |-> "", st |-> st, idx |-> 0] >> ELSE <<>>
   IN fwd \o itc \o tbc \o dfc
SmCands(mm, et) == LET tb == MD(mm).smtab
                       gate == IF IsB THEN \E k \in 1..Len(tb) : tb[k].ev = et ELSE TRUE
                       ix == IF gate THEN RevIdx(tb, LAMBDA rw : Matches(rw.ev, et)) ELSE <<>>
                   IN [k \in 1..Len(ix) |-> [c |-> "row", tab |-> "smtab", st |-> mm, idx |-> ix[k]]]
RowOf(mm, cd) == IF cd.tab = "table" THEN MD(mm).table[cd.idx]
                 ELSE IF cd.tab = "itab" THEN MD(mm).itab[cd.st][cd.idx] ELSE MD(mm).smtab[cd.idx]
ComplCands(mm, st) == LET tb == MD(mm).table
                          ix == RevIdx(tb, LAMBDA rw : rw.src = st /\ rw.ev = "none")
                      IN [k \in 1..Len(ix) |-> [c |-> "row", tab |-> "table", st |-> st, idx |-> ix[k]]]
HasCompl(mm) == \E k \in 1..Len(MD(mm).table) : MD(mm).table[k].ev = "none"
StateHasCompl(mm, st) == \E k \in 1..Len(MD(mm).table) : MD(mm).table[k].ev = "none" /\ MD(mm).table[k].src = st
ActRes(acts) == IF IsB THEN (IF \E k \in 1..Len(acts) : acts[k] = "defer" THEN 4 ELSE 1)
                ELSE (IF acts = <<"defer">> THEN 4 ELSE 1)

\* stable sort of a sequence of records by field seq, descending
RECURSIVE InsDesc(_, _)
InsDesc(sorted, x) == IF sorted = <<>> THEN <<x>>
                      ELSE IF Head(sorted).seq >= x.seq THEN <<Head(sorted)>> \o InsDesc(Tail(sorted), x)
                      ELSE <<x>> \o sorted
RECURSIVE SortDesc(_)
SortDesc(sq) == IF sq = <<>> THEN <<>> ELSE InsDesc(SortDesc(SubSeq(sq, 1, Len(sq)-1)), sq[Len(sq)])

\* what the active-state-switch policy makes of (source, target) after each phase
AfterPhase(mm, phase, srcst, tgtst) ==
   LET pol == Policy(mm)
       sw == CASE phase = "guard" -> pol = "before_transition"
               [] phase = "exit" -> pol \in {"before_transition", "after_exit"}
               [] phase = "action" -> pol \in {"before_transition", "after_exit", "after_action"}
               [] OTHER -> TRUE
   IN IF sw THEN tgtst ELSE srcst

EventTypes == Def.events
\* directives a behaviour may execute (mc mode): DirOps \subseteq {"throw","pe","enq"}, DirEvs \subseteq EventTypes
Directives == {[op |-> "none", on |-> "self", e |-> "", p |-> 0]}
              \cup (IF "throw" \in DirOps THEN {[op |-> "throw", on |-> "self", e |-> "", p |-> 0]} ELSE {})
              \cup {[op |-> o, on |-> w, e |-> e, p |-> 0] : o \in (DirOps \cap {"pe", "enq"}), w \in {"self", "root"}, e \in DirEvs}
NoDir == [op |-> "none", on |-> "self", e |-> "", p |-> 0]
PoolEv(occ, sq) == [kind |-> "ev", occ |-> occ, seq |-> sq, marked |-> FALSE, st |-> "", reg |-> 1]
PoolCompl(st, rg) == [kind |-> "compl", occ |-> NoneOcc, seq |-> 0, marked |-> FALSE, st |-> st, reg |-> rg]
InitHist == [mm \in Machines |-> [last |-> MD(mm).init]]
\* ghost bookkeeping used only by the property formulas (Props.tla)
LedgerKeys == {<<mm, st>> : mm \in Machines, st \in UNION {StatesOf(m2) : m2 \in Machines}} \cup {<<Def.root, Def.root>>}
ParentOf(mm) == CHOOSE pp \in Machines : mm \in StatesOf(pp)
OwnKey(mm) == IF mm = Def.root THEN <<Def.root, Def.root>> ELSE <<ParentOf(mm), mm>>
\* is the entry counter behind ledger key kk saved by Boost.Serialization ? (states / front-ends that opt in through do_serialize)
SerKey(kk) == IF kk[2] \in Machines THEN MD(kk[2]).selfser ELSE kk[1] \in Machines /\ kk[2] \in StatesOf(kk[1]) /\ kk[2] \in MD(kk[1]).ser
QPayloads(sq) == {sq[k].occ.p : k \in 1..Len(sq)}
\* number of stored occurrences whose event type counts its live objects (C20)
CountedIn(sq) == Cardinality({k \in 1..Len(sq) : sq[k].occ.t \in Def.counted})
LastPos(sq, x) == IF \E k \in 1..Len(sq) : sq[k] = x THEN CHOOSE k \in 1..Len(sq) : sq[k] = x /\ \A j \in (k+1)..Len(sq) : sq[j] # x ELSE 0
PoolPayloads(sq) == {sq[k].occ.p : k \in {kk \in 1..Len(sq) : sq[kk].kind = "ev" /\ ~sq[kk].marked}}

(* --algorithm MSM {
variables
   active = [ii \in Insts |-> [mm \in Machines |-> MD(mm).init]],
   running = [ii \in Insts |-> [mm \in Machines |-> FALSE]],
   processing = [ii \in Insts |-> [mm \in Machines |-> FALSE]],
   mq = [ii \in Insts |-> [mm \in Machines |-> <<>>]],        \* back: message queue of [occ, src]
   dq = [ii \in Insts |-> [mm \in Machines |-> <<>>]],        \* back: deferred queue of [occ, seq]
   curseq = [ii \in Insts |-> [mm \in Machines |-> 0]],
   pool = [ii \in Insts |-> [mm \in Machines |-> <<>>]],      \* mp11: [kind, occ, seq, marked, st, reg]
   seqcnt = [ii \in Insts |-> [mm \in Machines |-> 0]],
   hist = [ii \in Insts |-> InitHist],
   exc = FALSE, ret = 0, l = 1, cbn = 0, ncalls = 0, nextp = 1, budget = 0,
   hevs = <<>>,                                                 \* stack of the trigger types of the rows being executed (see HEv)
   gvmemo = [gg \in Def.guards |-> "u"],
   gvc = [gg \in Def.condguards |-> FALSE],                     \* guard values that decide conditional deferral (backmp11 is_event_deferred), fixed per call
   obs = <<>>, wasreset = FALSE, path = <<>>, nothrow = FALSE,
   ledger = [ii \in Insts |-> [kk \in LedgerKeys |-> 0]],      \* entries minus exits per (machine, state)
   encnt = [ii \in Insts |-> [kk \in LedgerKeys |-> 0]],       \* number of entries per (machine, state): the datum the instrumented states carry
   lastcfg = [ii \in Insts |-> [mm \in Machines |-> MD(mm).init]],   \* configuration of each machine when it was last exited (C08 oracle input)
   sawexc = [ii \in Insts |-> FALSE],
   stored = [ii \in Insts |-> [mm \in Machines |-> <<>>]],     \* payloads put into a queue / the pool, in order
   dispd = [ii \in Insts |-> [mm \in Machines |-> <<>>]],      \* payloads dispatched, in order
   defd = [ii \in Insts |-> {}],                                \* payloads that were deferred at least once
   defseq = [ii \in Insts |-> <<>>],                            \* every deferral [p, t] in order (first occurrences = arrival order)
   ins = [ii \in Insts |-> <<>>],                               \* backmp11: payloads in the order they were put into an event pool (a re-deferred occurrence is put in again)
   hdl = [ii \in Insts |-> <<>>],                               \* previously deferred occurrences [p, t] in the order they were finally handled
   dropped = [ii \in Insts |-> {}],                             \* payloads swallowed by a blocking state or a documented queue reset
   pre = [blocked |-> FALSE, quiet |-> TRUE, act |-> <<>>, all |-> <<>>],
   movedfrom = -1,
   used = [ii \in Insts |-> ii = 0],                            \* instance slots that hold an object (slot 0 from the beginning)
   lastcall = [op |-> "none", i |-> 0, e |-> "", p |-> 0];

define {
  CurLine == Trace[l]
  HasLine == l <= NL
  \* mp11: some active state (recursively) defers this event type
  RECURSIVE IsDeferredM(_, _, _)
  DefersNow(mm, st, et) == DefersEv(mm, st, et) /\ \A cd \in MD(mm).defcond[st] : (cd[1] = et) => gvc[cd[2]]
  IsDeferredM(ii, mm, et) == running[ii][mm] /\ \E rr \in 1..NReg(mm) :
        LET st == active[ii][mm][rr] IN DefersNow(mm, st, et) \/ (IsSub(mm, st) /\ IsDeferredM(ii, st, et))
  \* flags
  RECURSIVE FlagOrB(_, _, _)
  FlagOrB(ii, mm, fl) == \E rr \in 1..NReg(mm) : LET st == active[ii][mm][rr] IN
        fl \in MD(mm).flags[st] \/ (IsSub(mm, st) /\ FlagOrB(ii, st, fl))
  RECURSIVE FlagOrM(_, _, _)
  FlagOrM(ii, mm, fl) == running[ii][mm] /\ \E rr \in 1..NReg(mm) : LET st == active[ii][mm][rr] IN
        fl \in MD(mm).flags[st] \/ (IsSub(mm, st) /\ FlagOrM(ii, st, fl))
  FlagOr(ii, mm, fl) == IF IsB THEN FlagOrB(ii, mm, fl) ELSE FlagOrM(ii, mm, fl)
  \* is_flag_active<F, Flag_AND>: back folds the machine's own regions with AND, a submachine state without the flag forwards to the
  \* submachine's default (OR) query; backmp11 visits every active state at every depth that lacks the flag (nothing when not running)
  FlagAndB(ii, mm, fl) == \A rr \in 1..NReg(mm) : LET st == active[ii][mm][rr] IN
        fl \in MD(mm).flags[st] \/ (IsSub(mm, st) /\ FlagOrB(ii, st, fl))
  RECURSIVE FlagAndM(_, _, _)
  FlagAndM(ii, mm, fl) == running[ii][mm] => \A rr \in 1..NReg(mm) : LET st == active[ii][mm][rr] IN
        fl \in MD(mm).flags[st] /\ (IsSub(mm, st) => FlagAndM(ii, st, fl))
  FlagAnd(ii, mm, fl) == IF IsB THEN FlagAndB(ii, mm, fl) ELSE FlagAndM(ii, mm, fl)
  \* blocking (terminate / interrupt): back looks at the machine's own regions only (non-forwarding flags),
  \* backmp11 visits the whole active tree
  RECURSIVE KindActiveM(_, _, _)
  KindActiveM(ii, mm, kd) == running[ii][mm] /\ \E rr \in 1..NReg(mm) : LET st == active[ii][mm][rr] IN
        MD(mm).kind[st] = kd \/ (IsSub(mm, st) /\ KindActiveM(ii, st, kd))
  KindActive(ii, mm, kd) == IF IsB THEN \E rr \in 1..NReg(mm) : MD(mm).kind[active[ii][mm][rr]] = kd
                            ELSE KindActiveM(ii, mm, kd)
  RECURSIVE EndsActiveM(_, _, _)
  EndsActiveM(ii, mm, et) == running[ii][mm] /\ \E rr \in 1..NReg(mm) : LET st == active[ii][mm][rr] IN
        et \in MD(mm).ends[st] \/ (IsSub(mm, st) /\ EndsActiveM(ii, st, et))
  EndsActive(ii, mm, et) == IF IsB THEN \E rr \in 1..NReg(mm) : et \in MD(mm).ends[active[ii][mm][rr]]
                            ELSE EndsActiveM(ii, mm, et)
  HasBlocking(mm) == \E st \in StatesOf(mm) : MD(mm).kind[st] \in {"terminate", "interrupt"}
  RECURSIVE HasBlockingRec(_)
  HasBlockingRec(mm) == HasBlocking(mm) \/ \E st \in StatesOf(mm) : IsSub(mm, st) /\ HasBlockingRec(st)
  Blocked(ii, mm, et) == /\ (IF IsB THEN HasBlocking(mm) ELSE HasBlocking(mm))
                         /\ \/ KindActive(ii, mm, "terminate")
                            \/ KindActive(ii, mm, "interrupt") /\ ~EndsActive(ii, mm, et)
  \* machines of the active tree of instance ii
  RECURSIVE ActiveTree(_, _)
  ActiveTree(ii, mm) == {mm} \cup UNION { IF IsSub(mm, active[ii][mm][rr]) THEN ActiveTree(ii, active[ii][mm][rr]) ELSE {} : rr \in 1..NReg(mm) }
  \* backmp11 is_state_active<S>() asked on the root: active-recursive visitor, a machine that is not running reports nothing
  RECURSIVE IsActiveM(_, _, _)
  IsActiveM(ii, mm, sx) == running[ii][mm] /\ \E rr \in 1..NReg(mm) : LET st == active[ii][mm][rr] IN
        st = sx \/ (IsSub(mm, st) /\ IsActiveM(ii, st, sx))
  \* backmp11 visit(visitor) (active states, recursive): per region the active state, then - if it is a submachine - its active states
  RECURSIVE VisitSeq(_, _, _)
  \* (back / back11 visit_current_states() does not ask whether a machine is running)
  VisitSeq(ii, mm, rr) == IF (IsM /\ ~running[ii][mm]) \/ rr > NReg(mm) THEN <<>>
        ELSE LET st == active[ii][mm][rr] IN <<st>> \o (IF IsSub(mm, st) THEN VisitSeq(ii, st, 1) ELSE <<>>) \o VisitSeq(ii, mm, rr + 1)
  IsaVec(ii) == [k \in 1..Len(Def.allstates) |-> IsActiveM(ii, Def.root, Def.allstates[k])]
  FlagVec(ii, mm) == [k \in 1..(2 * Len(Def.flags)) |-> IF k <= Len(Def.flags) THEN FlagOr(ii, mm, Def.flags[k])
                                                          ELSE FlagAnd(ii, mm, Def.flags[k - Len(Def.flags)])]
  UseHist(mm, et) == HistKind(mm) = "always" \/ (HistKind(mm) = "shallow" /\ et \in HistEvents(mm))
  \* the event type a history policy sees is the static type the running row hands to the entry / exit cascade: the row's trigger
  \* (a base class of the occurrence's type, or the Kleene type), not the dynamic type of the occurrence
  HEv(et) == IF hevs = <<>> THEN et ELSE Head(hevs)
  EntryActive(ii, mm, named, et) ==
       [rr \in 1..NReg(mm) |->
            IF \E nn \in 1..Len(named) : RegOf(mm, named[nn]) = rr
            THEN named[CHOOSE nn \in 1..Len(named) : RegOf(mm, named[nn]) = rr]
            ELSE IF UseHist(mm, et) THEN hist[ii][mm].last[rr] ELSE MD(mm).init[rr]]
}

\* ---------------------------------------------------------------- one user behaviour (callback)
procedure Callback(c_kind, c_i, c_m, c_id, c_occ, c_sid)
  variables c_d = NoDir, c_res = TRUE;
{
CB1: cbn := cbn + 1;
     if (Mode = "trace") {
        await HasLine /\ CurLine.k = c_kind /\ CurLine.i = c_i /\ CurLine.m = c_m /\ CurLine.id = c_id
              /\ CurLine.e = c_occ.t /\ CurLine.p = c_occ.p /\ CurLine.n = cbn /\ CurLine.sid = c_sid
              /\ (IF c_kind \in {"nt", "xc"} THEN TRUE
                  ELSE CurLine.ids = Ids(c_m, active[c_i][c_m]) /\ CurLine.fl = FlagVec(c_i, c_m));
        c_d := CurLine.d;
        c_res := IF c_kind = "g" THEN CurLine.r ELSE TRUE;
        l := l + 1;
     } else {
        with (dd \in IF budget > 0 /\ ~(c_kind = "xc") THEN {xx \in Directives : ~(nothrow /\ xx.op = "throw")} ELSE {NoDir},
              bb \in IF c_kind = "g" THEN (IF gvmemo[c_id] = "u" THEN BOOLEAN ELSE {gvmemo[c_id] = "t"}) ELSE {TRUE}) {
           c_d := IF dd.op \in {"pe", "enq"} THEN [dd EXCEPT !.p = nextp] ELSE dd;
           c_res := bb;
           if (dd.op # "none") { budget := budget - 1; };
           if (dd.op \in {"pe", "enq"}) { nextp := nextp + 1; };
           if (c_kind = "g") { gvmemo[c_id] := IF bb THEN "t" ELSE "f"; };
           path := Append(path, [cb |-> cbn, d |-> c_d, g |-> c_id, r |-> bb, k |-> c_kind]);
        };
     };
     obs := Append(obs, [k |-> c_kind, i |-> c_i, m |-> c_m, id |-> c_id, e |-> c_occ.t, p |-> c_occ.p, r |-> c_res, x |-> c_sid]);
     if (c_kind = "en") { ledger[c_i][<<c_m, c_id>>] := ledger[c_i][<<c_m, c_id>>] + 1; encnt[c_i][<<c_m, c_id>>] := encnt[c_i][<<c_m, c_id>>] + 1; }
     else if (c_kind = "ex") { ledger[c_i][<<c_m, c_id>>] := ledger[c_i][<<c_m, c_id>>] - 1; };
CB2: if (c_d.op = "throw") {
        exc := TRUE; sawexc[c_i] := TRUE;
     } else if (c_d.op = "pe") {
        obs := Append(obs, [k |-> "submit", i |-> c_i, m |-> IF c_d.on = "root" THEN Def.root ELSE c_m, id |-> "pe", e |-> c_d.e, p |-> c_d.p, r |-> TRUE, x |-> 0]);
        call PEI(c_i, IF c_d.on = "root" THEN Def.root ELSE c_m, [t |-> c_d.e, p |-> c_d.p], IF IsB THEN {"D"} ELSE {"direct"});
     } else if (c_d.op = "enq") {
        obs := Append(obs, [k |-> "submit", i |-> c_i, m |-> IF c_d.on = "root" THEN Def.root ELSE c_m, id |-> "enq", e |-> c_d.e, p |-> c_d.p, r |-> TRUE, x |-> 0]);
        call Enqueue(c_i, IF c_d.on = "root" THEN Def.root ELSE c_m, [t |-> c_d.e, p |-> c_d.p]);
     };
CB3: ret := IF c_res THEN 1 ELSE 0;
CB4: return;
}

\* enqueue_event
procedure Enqueue(e_i, e_m, e_occ)
{
E1: if (IsB) { mq[e_i][e_m] := Append(mq[e_i][e_m], [occ |-> e_occ, src |-> {"Q"}, bnd |-> e_i]); }
    else { pool[e_i][e_m] := Append(pool[e_i][e_m], PoolEv(e_occ, seqcnt[e_i][e_m] - 1)); ins[e_i] := Append(ins[e_i], e_occ.p); };
    stored[e_i][e_m] := Append(stored[e_i][e_m], e_occ.p);
E2: return;
}

\* ---------------------------------------------------------------- guard expression (And_/Or_/Not_ short-circuit)
procedure EvalG(g_i, g_m, g_expr, g_occ)
{
G1: if (g_expr = <<>>) { ret := 1; return; }
    else if (g_expr[1] = "atom") {
       call Callback("g", g_i, g_m, g_expr[2], g_occ, -1);
G1r:   return;
    } else if (g_expr[1] = "not") {
       call EvalG(g_i, g_m, g_expr[2], g_occ);
G2:    if (~exc) { ret := 1 - ret; };
G2r:   return;
    } else {
       call EvalG(g_i, g_m, g_expr[2], g_occ);
G3:    if (exc \/ (g_expr[1] = "and" /\ ret = 0) \/ (g_expr[1] = "or" /\ ret = 1)) { return; }
       else { call EvalG(g_i, g_m, g_expr[3], g_occ); };
G4:    return;
    };
}

\* ---------------------------------------------------------------- action (ActionSequence_, Defer)
procedure RunAct(a_i, a_m, a_acts, a_occ)
  variables a_k = 1;
{
A2: while (a_k <= Len(a_acts)) {
       if (a_acts[a_k] = "defer") {
          if (IsB) { dq[a_i][a_m] := Append(dq[a_i][a_m], [occ |-> a_occ, seq |-> curseq[a_i][a_m] + 1, bnd |-> a_i]); }
          else { pool[a_i][a_m] := Append(pool[a_i][a_m], PoolEv(a_occ, IF processing[a_i][a_m] THEN seqcnt[a_i][a_m] ELSE seqcnt[a_i][a_m] - 1));
                 ins[a_i] := Append(ins[a_i], a_occ.p); };
          obs := Append(obs, [k |-> "deferred", i |-> a_i, m |-> a_m, id |-> "action", e |-> a_occ.t, p |-> a_occ.p, r |-> TRUE, x |-> 0]);
          defd[a_i] := defd[a_i] \cup {a_occ.p}; defseq[a_i] := Append(defseq[a_i], [p |-> a_occ.p, t |-> a_occ.t]);
       } else {
          call Callback("a", a_i, a_m, a_acts[a_k], a_occ, -1);
       };
A3:    if (exc) { return; } else { a_k := a_k + 1; };
    };
A4: ret := ActRes(a_acts);
A5: return;
}

\* ---------------------------------------------------------------- exit of a state (cascade for a submachine)
procedure ExecExit(x_i, x_m, x_s, x_occ)
  variables x_r = 1;
{
X1: if (~IsSub(x_m, x_s)) {
       call Callback("ex", x_i, x_m, x_s, x_occ, -1);
X1r:   return;
    };
X3: while (x_r <= NReg(x_s) /\ (IsB \/ running[x_i][x_s])) {   \* backmp11: the active-state visitor is a no-op on a machine that was never entered
       call ExecExit(x_i, x_s, active[x_i][x_s][x_r], x_occ);
X4:    if (exc) { return; } else { x_r := x_r + 1; };
    };
X5: call Callback("ex", x_i, x_m, x_s, x_occ, -1);
X6: if (~exc) {
       lastcfg[x_i][x_s] := active[x_i][x_s];
       \* history_exit / history_impl::on_exit; back: the history policy decides about pending deferred events
       if (HistKind(x_s) # "none") { hist[x_i][x_s].last := active[x_i][x_s]; };
       if (IsB /\ ~UseHist(x_s, HEv(x_occ.t))) { dropped[x_i] := dropped[x_i] \cup QPayloads(dq[x_i][x_s]); dq[x_i][x_s] := <<>>; };
    };
X7: return;
}

\* ---------------------------------------------------------------- entry of a state
\* n_ek: "plain" | "explicit" (also fork) | "entrypt" | "restore" (entered because the enclosing machine is entered)
procedure ExecEntry(n_i, n_m, n_s, n_occ, n_reg, n_ek, n_named)
  variables n_r = 1;
{
N1: if (~IsSub(n_m, n_s)) {
       call Callback("en", n_i, n_m, n_s, n_occ, -1);
N1r:   if (~exc /\ IsExitPt(n_m, n_s) /\ (IF IsB THEN Convertible(n_occ.t, MD(n_m).xpev[n_s]) ELSE n_ek # "restore")) {
          \* exit pseudo state: forward the (converted) event to the root machine
          obs := Append(obs, [k |-> "submit", i |-> n_i, m |-> Def.root, id |-> "xp", e |-> MD(n_m).xpev[n_s], p |-> n_occ.p, r |-> TRUE, x |-> 0]);
          if (IsB) { call PEI(n_i, Def.root, [t |-> MD(n_m).xpev[n_s], p |-> n_occ.p], {"D"}); }
          else { pool[n_i][Def.root] := Append(pool[n_i][Def.root], PoolEv([t |-> MD(n_m).xpev[n_s], p |-> n_occ.p], seqcnt[n_i][Def.root] - 1));
                 stored[n_i][Def.root] := Append(stored[n_i][Def.root], n_occ.p); };
       } else if (~exc /\ IsM /\ StateHasCompl(n_m, n_s) /\ n_ek = "restore") {
          \* on_state_entry_completed (for transition targets this is done by RowExec after the switch)
          pool[n_i][n_m] := <<PoolCompl(n_s, n_reg)>> \o pool[n_i][n_m];
       };
N1s:   return;
    };
N2: processing[n_i][n_s] := TRUE;
    running[n_i][n_s] := TRUE;
    \* back: every region gets its history / initial state first; the states named by an explicit entry, fork or entry point are set
    \* after the machine's own entry behaviour (N3)
    if (IsB) { active[n_i][n_s] := EntryActive(n_i, n_s, <<>>, HEv(n_occ.t)); }
    else if (Len(n_named) # NReg(n_s) /\ ~UseHist(n_s, HEv(n_occ.t))) {
       \* backmp11 without (matching) history: events pending from the previous activation are dropped before the machine's own entry
       \* behaviour runs; events raised by the entry behaviours of this activation are kept
       dropped[n_i] := dropped[n_i] \cup PoolPayloads(pool[n_i][n_s]); pool[n_i][n_s] := <<>>;
    };
    call Callback("en", n_i, n_m, n_s, n_occ, -1);
N3: if (exc) { processing[n_i][n_s] := FALSE; return; }     \* the flag is reset when an entry behaviour throws
    else {
       if (IsM) {
          active[n_i][n_s] := EntryActive(n_i, n_s, n_named, HEv(n_occ.t));
       } else {
          active[n_i][n_s] := [rr \in 1..NReg(n_s) |->
                IF \E nn \in 1..Len(n_named) : RegOf(n_s, n_named[nn]) = rr
                THEN n_named[CHOOSE nn \in 1..Len(n_named) : RegOf(n_s, n_named[nn]) = rr] ELSE active[n_i][n_s][rr]];
       };
    };
N4: while (n_r <= NReg(n_s)) {
       \* mp11 with all regions named: entries in the order of the named list; otherwise region order
       call ExecEntry(n_i, n_s, IF IsM /\ Len(n_named) = NReg(n_s) THEN n_named[n_r] ELSE active[n_i][n_s][n_r], n_occ,
                      n_r, "restore", <<>>);
N5:    if (exc) { processing[n_i][n_s] := FALSE; return; } else { n_r := n_r + 1; };
    };
N6: if (IsB /\ HasCompl(n_s)) { call PEI(n_i, n_s, NoneOcc, {"D"}); };      \* queued: processing is TRUE
N6b: if (exc) { processing[n_i][n_s] := FALSE; return; } else if (IsB /\ n_ek = "entrypt") { call PEI(n_i, n_s, n_occ, {"D"}); };   \* queued as well
N7: processing[n_i][n_s] := FALSE;
    if (exc) { return; };
N8: if (IsB) { call HandleDeferred(n_i, n_s, TRUE); };
N9: if (exc) { return; } else if (IsB) { call DrainB(n_i, n_s, 0); } else { call PoolM(n_i, n_s, 0); };
N9b: if (exc) { return; } else if (IsM /\ n_ek = "entrypt") { call PEI(n_i, n_s, n_occ, {"direct"}); };
N10: return;
}

\* ---------------------------------------------------------------- back: do_handle_deferred
procedure HandleDeferred(h_i, h_m, h_new)
  variables h_notonly = FALSE, h_hd = [occ |-> NoneOcc, seq |-> 0, bnd |-> 0];
{
H0: if (h_new) { curseq[h_i][h_m] := curseq[h_i][h_m] + 1; };
H2: while (dq[h_i][h_m] # <<>> /\ Head(dq[h_i][h_m]).seq = curseq[h_i][h_m] /\ ~h_notonly) {
       h_hd := Head(dq[h_i][h_m]); dq[h_i][h_m] := Tail(dq[h_i][h_m]);
       \* the stored closure is bound to the machine object that created it (h_hd.bnd differs from h_i only after a copy)
       if (h_hd.bnd # h_i) { obs := Append(obs, [k |-> "xbind", i |-> h_i, m |-> h_m, id |-> "dq", e |-> h_hd.occ.t, p |-> h_hd.occ.p, r |-> TRUE, x |-> h_hd.bnd]); };
       call PEI(h_hd.bnd, h_m, h_hd.occ, {"D", "F"});
H3:    if (exc) { return; } else if (ret # 0 /\ ret # 4) { h_notonly := TRUE; };
    };
H4: if (h_notonly) {
       dq[h_i][h_m] := [k \in 1..Len(dq[h_i][h_m]) |-> [SortDesc(dq[h_i][h_m])[k] EXCEPT !.seq = curseq[h_i][h_m] + 1]];
       call HandleDeferred(h_i, h_m, TRUE);
    };
H5: return;
}

\* back: process_message_queue / execute_queued_events (q_max = 0: all, 1: single)
procedure DrainB(q_i, q_m, q_max)
  variables q_e = [occ |-> NoneOcc, src |-> {}, bnd |-> 0], q_n = 0;
{
Q2: while (mq[q_i][q_m] # <<>> /\ (q_max = 0 \/ q_n < q_max)) {
       q_e := Head(mq[q_i][q_m]); mq[q_i][q_m] := Tail(mq[q_i][q_m]); q_n := q_n + 1;
       if (q_e.bnd # q_i) { obs := Append(obs, [k |-> "xbind", i |-> q_i, m |-> q_m, id |-> "mq", e |-> q_e.occ.t, p |-> q_e.occ.p, r |-> TRUE, x |-> q_e.bnd]); };
       call PEI(q_e.bnd, q_m, q_e.occ, q_e.src);
Q3:    if (exc) { return; };
    };
Q7: return;
}

\* mp11: process_event_pool(max) / do_process_event_pool
procedure PoolM(k_i, k_m, k_max)
  variables k_pk = 1, k_n = 0, k_cur = PoolEv(NoneOcc, 0), k_stop = FALSE;
{
K0: if (pool[k_i][k_m] = <<>> \/ processing[k_i][k_m]) { ret := 0; return; };
K5: while (k_pk <= Len(pool[k_i][k_m]) /\ ~k_stop) {
       k_cur := pool[k_i][k_m][k_pk];
       if (k_cur.marked) {
          pool[k_i][k_m] := SubSeq(pool[k_i][k_m], 1, k_pk-1) \o SubSeq(pool[k_i][k_m], k_pk+1, Len(pool[k_i][k_m]));
       } else if (k_cur.kind = "ev" /\ (k_cur.seq = seqcnt[k_i][k_m] \/ IsDeferredM(k_i, k_m, k_cur.occ.t))) {
          k_pk := k_pk + 1;
          if (IsDeferredM(k_i, k_m, k_cur.occ.t)) { defd[k_i] := defd[k_i] \cup {k_cur.occ.p}; defseq[k_i] := Append(defseq[k_i], [p |-> k_cur.occ.p, t |-> k_cur.occ.t]); };
       } else {
          pool[k_i][k_m][k_pk].marked := TRUE;
          if (k_cur.kind = "ev") { call PEI(k_i, k_m, k_cur.occ, {"pool"}); }
          else { call ComplM(k_i, k_m, k_cur.st, k_cur.reg); };
K6:       if (exc) { return; }
          else {
             if (ret # 4) { k_n := k_n + 1; };
             if (ret # 4 /\ k_max # 0 /\ k_n >= k_max) { k_stop := TRUE; }   \* k_n: value after the increment
             else {
                k_pk := 1;
                if (~HasBit(ret, 4)) { seqcnt[k_i][k_m] := seqcnt[k_i][k_m] + 1; };
             };
          };
       };
    };
K7: ret := k_n;
K8: return;
}

\* mp11: process_completion_transition for state st of region reg
procedure ComplM(m_i, m_m, m_st, m_reg)
{
CM1: if (HasBlocking(m_m) /\ (KindActive(m_i, m_m, "terminate") \/ KindActive(m_i, m_m, "interrupt"))) { ret := 1; return; };
CM2: processing[m_i][m_m] := TRUE;
    obs := Append(obs, [k |-> "disp", i |-> m_i, m |-> m_m, id |-> m_st, e |-> "none", p |-> m_reg, r |-> TRUE, x |-> 0]);
    call Chain(m_i, m_m, m_reg, ComplCands(m_m, m_st), NoneOcc, FALSE);
CM3: if (exc) {
       exc := FALSE;
       obs := Append(obs, [k |-> "dispend", i |-> m_i, m |-> m_m, id |-> "", e |-> "none", p |-> -1, r |-> FALSE, x |-> 0]);
       call Callback("xc", m_i, m_m, "", NoneOcc, -1);
CM3b:   if (~exc) { ret := 0; };
    };
CM4: if (exc) { return; } else {
       obs := Append(obs, [k |-> IF ret = 0 /\ obs[Len(obs)].k = "xc" THEN "complxc" ELSE "dispend", i |-> m_i, m |-> m_m, id |-> "", e |-> "none", p |-> ret, r |-> TRUE, x |-> 0]);
       processing[m_i][m_m] := FALSE; };
CM5: return;
}

\* ---------------------------------------------------------------- one row
procedure RowExec(r_i, r_m, r_r, r_c, r_occ)
  variables r_row = [src |-> "", ev |-> "", tgt |-> "", g |-> <<>>, a |-> <<>>, int |-> FALSE, ek |-> "plain", named |-> <<>>, xp |-> ""], r_res = 1;
{
R0: r_row := RowOf(r_m, r_c);
R0b: \* a row leaving an exit point is a candidate only while that exit point is the active state of its submachine
     if (r_row.xp # "" /\ ~((IsB \/ running[r_i][r_row.src]) /\ \E rr \in 1..NReg(r_row.src) : active[r_i][r_row.src][rr] = r_row.xp)) { ret := 0; goto R9; };
R1: if (r_row.g # <<>>) {
       call EvalG(r_i, r_m, r_row.g, r_occ);
R2:    if (exc) { return; } else if (ret = 0) { ret := 2; goto R9; };
    };
R2x: if (r_row.xp # "") {
        obs := Append(obs, [k |-> "xptake", i |-> r_i, m |-> r_m, id |-> r_row.xp, e |-> r_occ.t, p |-> r_c.idx,
                            r |-> \E rr \in 1..NReg(r_row.src) : active[r_i][r_row.src][rr] = r_row.xp, x |-> r_r]); };
R3: if (r_occ.p \in defd[r_i] /\ ~(\E kk \in 1..Len(r_row.a) : r_row.a[kk] = "defer")) {     \* a row that defers again does not "handle" the occurrence
       hdl[r_i] := Append(hdl[r_i], [p |-> r_occ.p, t |-> r_occ.t, m |-> r_m, a |-> LastPos(ins[r_i], r_occ.p)]); };
    obs := Append(obs, [k |-> "take", i |-> r_i, m |-> r_m, id |-> IF r_c.tab = "itab" THEN r_c.st ELSE r_c.tab, e |-> r_occ.t, p |-> r_c.idx, r |-> r_row.int, x |-> r_r]);
R3x: if (r_row.int) {
       call RunAct(r_i, r_m, r_row.a, r_occ);
R3b:   if (~exc) { obs := Append(obs, [k |-> "taken", i |-> r_i, m |-> r_m, id |-> r_row.src, e |-> r_occ.t, p |-> r_c.idx, r |-> TRUE, x |-> r_r]); };
       goto R9;
    } else if (r_c.tab # "smtab") { active[r_i][r_m][r_r] := AfterPhase(r_m, "guard", r_row.src, r_row.tgt); };
R4: call ExecExit(r_i, r_m, r_row.src, r_occ);
R5: if (exc) { return; } else {
       active[r_i][r_m][r_r] := AfterPhase(r_m, "exit", r_row.src, r_row.tgt);
       call RunAct(r_i, r_m, r_row.a, r_occ); };
R6: if (exc) { return; } else {
       r_res := ret;
       active[r_i][r_m][r_r] := AfterPhase(r_m, "action", r_row.src, r_row.tgt);
       call ExecEntry(r_i, r_m, r_row.tgt, r_occ, r_r, r_row.ek, r_row.named); };
R7: if (exc) { return; } else {
       active[r_i][r_m][r_r] := r_row.tgt; ret := r_res;
       obs := Append(obs, [k |-> "taken", i |-> r_i, m |-> r_m, id |-> r_row.tgt, e |-> r_occ.t, p |-> r_c.idx, r |-> FALSE, x |-> r_r]);
       if (IsM /\ ~IsSub(r_m, r_row.tgt) /\ ~IsExitPt(r_m, r_row.tgt) /\ StateHasCompl(r_m, r_row.tgt)) {
          pool[r_i][r_m] := <<PoolCompl(r_row.tgt, r_r)>> \o pool[r_i][r_m];
       };
    };
R9: return;
}

\* ---------------------------------------------------------------- chain for one region / the sm-internal table
procedure Chain(ch_i, ch_m, ch_r, ch_cands, ch_occ, ch_sm)
  variables ch_k = 1, ch_rej = FALSE, ch_done = FALSE, ch_out = 0;
{
C1: while (ch_k <= Len(ch_cands) /\ ~ch_done) {
       if (ch_cands[ch_k].c = "fwd") {
          call PEI(ch_i, ch_cands[ch_k].st, ch_occ, IF IsB THEN {} ELSE {"sub"});
       } else if (ch_cands[ch_k].c = "defer") {
          dq[ch_i][ch_m] := Append(dq[ch_i][ch_m], [occ |-> ch_occ, seq |-> curseq[ch_i][ch_m] + 1, bnd |-> ch_i]);
          obs := Append(obs, [k |-> "deferred", i |-> ch_i, m |-> ch_m, id |-> "state", e |-> ch_occ.t, p |-> ch_occ.p, r |-> TRUE, x |-> 0]);
          defd[ch_i] := defd[ch_i] \cup {ch_occ.p}; defseq[ch_i] := Append(defseq[ch_i], [p |-> ch_occ.p, t |-> ch_occ.t]);
          ret := 4;
       } else {
          hevs := <<IF RowOf(ch_m, ch_cands[ch_k]).ev \in {"any", "anyu"} THEN "any" ELSE RowOf(ch_m, ch_cands[ch_k]).ev>> \o hevs;
          call RowExec(ch_i, ch_m, ch_r, ch_cands[ch_k], ch_occ);
       };
C2:    if (ch_cands[ch_k].c \notin {"fwd", "defer"}) { hevs := Tail(hevs); };
C2b:   if (exc) { return; }
       else {
          if (Consumed(ret)) {
             ch_done := TRUE;
             \* backmp11 transition_chain masks the guard-reject bit; a single transition is returned as is;
             \* back / back11 return the consuming row's code as is
             ch_out := IF IsM /\ ~Cfg.fct /\ Len(ch_cands) > 1 THEN Mask5(ret)
                       ELSE IF IsM /\ Cfg.fct /\ ch_cands[ch_k].c # "fwd" THEN Mask5(ret) ELSE ret;
          } else if (HasBit(ret, 2)) { ch_rej := TRUE; };
          if (IsB /\ ch_cands[ch_k].c = "fwd") { active[ch_i][ch_m][ch_r] := ch_cands[ch_k].st; };
          ch_k := ch_k + 1;
       };
    };
C3: ret := IF ch_done THEN ch_out ELSE IF ch_rej THEN 2 ELSE 0;
C4: return;
}

\* ---------------------------------------------------------------- do_process_event
procedure DoProcess(d_i, d_m, d_occ, d_direct)
  variables d_r = 1, d_result = 0;
{
D1: while (d_r <= NReg(d_m)) {
       if (IsB /\ ~Cfg.fct /\ Cands(d_m, active[d_i][d_m][d_r], d_occ.t) = <<>> /\ DefersEv(d_m, active[d_i][d_m][d_r], d_occ.t)) {
          \* defer_transition default cell
          dq[d_i][d_m] := Append(dq[d_i][d_m], [occ |-> d_occ, seq |-> curseq[d_i][d_m] + 1, bnd |-> d_i]);
          obs := obs \o << [k |-> "disp", i |-> d_i, m |-> d_m, id |-> active[d_i][d_m][d_r], e |-> d_occ.t, p |-> d_r, r |-> TRUE, x |-> d_occ.p],
                           [k |-> "deferred", i |-> d_i, m |-> d_m, id |-> "state", e |-> d_occ.t, p |-> d_occ.p, r |-> TRUE, x |-> 0] >>;
          defd[d_i] := defd[d_i] \cup {d_occ.p}; defseq[d_i] := Append(defseq[d_i], [p |-> d_occ.p, t |-> d_occ.t]);
          ret := 4;
       } else {
          obs := Append(obs, [k |-> "disp", i |-> d_i, m |-> d_m, id |-> active[d_i][d_m][d_r], e |-> d_occ.t, p |-> d_r, r |-> TRUE, x |-> d_occ.p]);
          call Chain(d_i, d_m, d_r, Cands(d_m, active[d_i][d_m][d_r], d_occ.t), d_occ, FALSE);
       };
D2:    if (exc) { obs := Append(obs, [k |-> "dispend", i |-> d_i, m |-> d_m, id |-> "", e |-> d_occ.t, p |-> -1, r |-> FALSE, x |-> d_occ.p]); return; } else {
          obs := Append(obs, [k |-> "dispend", i |-> d_i, m |-> d_m, id |-> "", e |-> d_occ.t, p |-> ret, r |-> TRUE, x |-> d_occ.p]);
          d_result := BOr(d_result, ret); d_r := d_r + 1; };
    };
D3: if ((IF IsB THEN ~HasBit(d_result, 1) ELSE ~Consumed(d_result)) /\ SmCands(d_m, d_occ.t) # <<>>) {
       obs := Append(obs, [k |-> "disp", i |-> d_i, m |-> d_m, id |-> d_m, e |-> d_occ.t, p |-> 0, r |-> TRUE, x |-> d_occ.p]);
       call Chain(d_i, d_m, 1, SmCands(d_m, d_occ.t), d_occ, TRUE);
D4:    if (exc) { obs := Append(obs, [k |-> "dispend", i |-> d_i, m |-> d_m, id |-> "", e |-> d_occ.t, p |-> -1, r |-> FALSE, x |-> d_occ.p]); return; } else {
          obs := Append(obs, [k |-> "dispend", i |-> d_i, m |-> d_m, id |-> "", e |-> d_occ.t, p |-> ret, r |-> TRUE, x |-> d_occ.p]);
          d_result := BOr(d_result, ret); };
    };
D5: d_r := 1;
D6: while (d_result = 0 /\ d_direct /\ d_occ.t # "none" /\ d_r <= NReg(d_m)) {
       call Callback("nt", d_i, d_m, "", d_occ, IdOf(d_m, active[d_i][d_m][d_r]));
D7:    if (exc) { return; } else { d_r := d_r + 1; };
    };
D8: ret := d_result;
D9: return;
}

\* ---------------------------------------------------------------- process_event_internal
\* p_src: back: subset of {"D" direct, "F" deferred queue, "Q" message queue}; mp11: {"direct"} | {"sub"} | {"pool"}
procedure PEI(p_i, p_m, p_occ, p_src)
  variables p_handled = 0;
{
P0: if (Blocked(p_i, p_m, p_occ.t)) {
       \* a blocked machine swallows the event (reports it handled); back / back11 report a forwarded completion event as not handled,
       \* otherwise the enclosing machine would look for completion transitions for ever (repair F16)
       ret := IF IsB /\ p_occ.t = "none" THEN 0 ELSE 1;
       obs := Append(obs, [k |-> "blk", i |-> p_i, m |-> p_m, id |-> "", e |-> p_occ.t, p |-> p_occ.p, r |-> TRUE, x |-> 0]);
       if (p_occ.t # "none") { dropped[p_i] := dropped[p_i] \cup {p_occ.p}; };
       return; };
P1: if (IsB) {
       if (processing[p_i][p_m]) {
          mq[p_i][p_m] := Append(mq[p_i][p_m], [occ |-> p_occ, src |-> {"D", "Q"}, bnd |-> p_i]);
          if (p_occ.t # "none") { stored[p_i][p_m] := Append(stored[p_i][p_m], p_occ.p); };
          ret := 1; return; };
    } else if ("pool" \notin p_src) {
       if (processing[p_i][p_m] \/ ("sub" \notin p_src /\ IsDeferredM(p_i, p_m, p_occ.t))) {
          pool[p_i][p_m] := Append(pool[p_i][p_m], PoolEv(p_occ, seqcnt[p_i][p_m] - 1)); ins[p_i] := Append(ins[p_i], p_occ.p);
          if (~processing[p_i][p_m]) {
             obs := Append(obs, [k |-> "deferred", i |-> p_i, m |-> p_m, id |-> "state", e |-> p_occ.t, p |-> p_occ.p, r |-> TRUE, x |-> 0]);
             defd[p_i] := defd[p_i] \cup {p_occ.p}; defseq[p_i] := Append(defseq[p_i], [p |-> p_occ.p, t |-> p_occ.t]);
          } else if (p_occ.t # "none") { stored[p_i][p_m] := Append(stored[p_i][p_m], p_occ.p); };
          ret := 4; return;
       } else { seqcnt[p_i][p_m] := seqcnt[p_i][p_m] + 1; };
    };
P2: processing[p_i][p_m] := TRUE;
    if (p_occ.t # "none") { dispd[p_i][p_m] := Append(dispd[p_i][p_m], p_occ.p); };
    obs := Append(obs, [k |-> "pei", i |-> p_i, m |-> p_m, id |-> "", e |-> p_occ.t, p |-> p_occ.p, r |-> TRUE, x |-> 0]);
    call DoProcess(p_i, p_m, p_occ, IF IsB THEN (p_m = Def.root \/ "D" \in p_src) ELSE "sub" \notin p_src);
P3: if (exc) {
       exc := FALSE; p_handled := 0;
       call Callback("xc", p_i, p_m, "", p_occ, -1);
    } else { p_handled := ret; };
P4: if (exc) { return; } else {
       processing[p_i][p_m] := FALSE;
       obs := Append(obs, [k |-> "peiend", i |-> p_i, m |-> p_m, id |-> "", e |-> p_occ.t, p |-> p_occ.p, r |-> TRUE, x |-> p_handled]); };
P5: if (IsB /\ HasCompl(p_m) /\ HasBit(p_handled, 1)) { call PEI(p_i, p_m, NoneOcc, p_src \cup {"D"}); };
P6: if (exc) { return; }
    else if (IsB /\ ~MD(p_m).qfirst /\ "F" \notin p_src) { call HandleDeferred(p_i, p_m, HasBit(p_handled, 1)); }
    else if (IsB /\ MD(p_m).qfirst /\ "Q" \notin p_src) { call DrainB(p_i, p_m, 0); };
P7: if (exc) { return; }
    else if (IsB /\ ~MD(p_m).qfirst /\ "F" \notin p_src /\ "Q" \notin p_src) { call DrainB(p_i, p_m, 0); }
    else if (IsB /\ MD(p_m).qfirst /\ "Q" \notin p_src /\ "F" \notin p_src) { call HandleDeferred(p_i, p_m, HasBit(p_handled, 1)); }
    else if (IsM /\ "pool" \notin p_src) { call PoolM(p_i, p_m, 0); };
P8: if (exc) { return; } else { ret := p_handled; };
P9: return;
}

\* ---------------------------------------------------------------- start() / stop() of the root
procedure StartRoot(s_i)
  variables s_r = 1;
{
S0: if (IsB) { active[s_i][Def.root] := MD(Def.root).init; };   \* backmp11 sets the ids only after the machine's own on_entry
    running[s_i][Def.root] := TRUE; processing[s_i][Def.root] := TRUE;   \* events raised by the initial entries are queued
    if (IsM /\ ~UseHist(Def.root, "start")) { dropped[s_i] := dropped[s_i] \cup PoolPayloads(pool[s_i][Def.root]); pool[s_i][Def.root] := <<>>; };
S1: call Callback("en", s_i, Def.root, Def.root, StartOcc, -1);
S2: if (IsM) {
       active[s_i][Def.root] := EntryActive(s_i, Def.root, <<>>, "start");
    };
S3: while (s_r <= NReg(Def.root)) {
       \* back enters the initial states by type; backmp11 the states the history names
       call ExecEntry(s_i, Def.root, IF IsB THEN MD(Def.root).init[s_r] ELSE active[s_i][Def.root][s_r], StartOcc, s_r, "restore", <<>>);
S4:    s_r := s_r + 1;
    };
S5: processing[s_i][Def.root] := FALSE;
    if (IsB /\ HasCompl(Def.root)) { call PEI(s_i, Def.root, NoneOcc, {"D"}); };
S6: if (IsM) { call PoolM(s_i, Def.root, 0); } else { call DrainB(s_i, Def.root, 0); };
S7: ret := 0;
S8: return;
}

procedure StopRoot(t_i)
  variables t_r = 1;
{
T1: while (t_r <= NReg(Def.root)) {
       call ExecExit(t_i, Def.root, active[t_i][Def.root][t_r], StopOcc);
T2:    t_r := t_r + 1;
    };
T3: call Callback("ex", t_i, Def.root, Def.root, StopOcc, -1);
T4: lastcfg[t_i][Def.root] := active[t_i][Def.root];
    if (HistKind(Def.root) # "none") { hist[t_i][Def.root].last := active[t_i][Def.root]; };
    if (IsB /\ ~UseHist(Def.root, "stop")) { dropped[t_i] := dropped[t_i] \cup QPayloads(dq[t_i][Def.root]); dq[t_i][Def.root] := <<>>; };
    running[t_i][Def.root] := FALSE;
T5: ret := 0;
T6: return;
}

\* ---------------------------------------------------------------- environment: one API call after the other
{
M0: while (TRUE) {
       either {
          await Mode = "trace" /\ HasLine /\ CurLine.k = "reset" /\ CurLine.live = 0 /\ CurLine.bad = 0;   \* everything the destroyed machines held is gone
          l := l + 1; wasreset := TRUE;
          active := [ii \in Insts |-> [mm \in Machines |-> MD(mm).init]];
          running := [ii \in Insts |-> [mm \in Machines |-> FALSE]];
          processing := [ii \in Insts |-> [mm \in Machines |-> FALSE]];
          mq := [ii \in Insts |-> [mm \in Machines |-> <<>>]];
          dq := [ii \in Insts |-> [mm \in Machines |-> <<>>]];
          curseq := [ii \in Insts |-> [mm \in Machines |-> 0]];
          pool := [ii \in Insts |-> [mm \in Machines |-> <<>>]];
          seqcnt := [ii \in Insts |-> [mm \in Machines |-> 0]];
          hist := [ii \in Insts |-> InitHist];
          exc := FALSE; ret := 0; cbn := 0; obs := <<>>;
          lastcfg := [ii \in Insts |-> [mm \in Machines |-> MD(mm).init]];
          ledger := [ii \in Insts |-> [kk \in LedgerKeys |-> 0]]; encnt := [ii \in Insts |-> [kk \in LedgerKeys |-> 0]];
          sawexc := [ii \in Insts |-> FALSE];
          stored := [ii \in Insts |-> [mm \in Machines |-> <<>>]];
          dispd := [ii \in Insts |-> [mm \in Machines |-> <<>>]];
          defd := [ii \in Insts |-> {}]; dropped := [ii \in Insts |-> {}];
          defseq := [ii \in Insts |-> <<>>]; hdl := [ii \in Insts |-> <<>>]; ins := [ii \in Insts |-> <<>>]; used := [ii \in Insts |-> ii = 0];
          gvmemo := [gg \in Def.guards |-> "u"];
          lastcall := [op |-> "none", i |-> 0, e |-> "", p |-> 0]; pre := [blocked |-> FALSE, quiet |-> TRUE, act |-> <<>>, all |-> <<active, mq, dq, pool, hist, running>>];
       } or {
          await Mode = "trace" /\ HasLine /\ CurLine.k = "end" /\ CurLine.live = 0 /\ CurLine.bad = 0;    \* every stored copy destroyed exactly once
          l := l + 1; wasreset := TRUE; obs := <<>>;
          lastcall := [op |-> "none", i |-> 0, e |-> "", p |-> 0];
       } or {
          \* start
          with (ii \in IF Mode = "trace" THEN (IF HasLine /\ CurLine.k = "call" /\ CurLine.op = "start" THEN {CurLine.i} ELSE {})
                       ELSE {jj \in Insts : ~running[jj][Def.root] /\ "start" \in Apis}) {
             if (Mode = "trace") { l := l + 1; } else { await ncalls < MaxCalls; budget := IF BudgetPerCall \/ ncalls = 0 THEN Budget ELSE budget; path := Append(path, [call |-> "start", i |-> ii, e |-> "", p |-> 0]); };
             ncalls := ncalls + 1; cbn := 0; obs := <<>>; wasreset := FALSE;
             gvmemo := [gg \in Def.guards |-> IF gg \in Def.sticky THEN gvmemo[gg] ELSE "u"];
             lastcall := [op |-> "start", i |-> ii, e |-> "", p |-> 0]; nothrow := TRUE;
             gvc := IF Mode = "trace" THEN [gg \in Def.condguards |-> IF Def.gidx[gg] <= Len(Trace[l-1].gv) THEN Trace[l-1].gv[Def.gidx[gg]] ELSE FALSE] ELSE gvc;
             pre := [blocked |-> FALSE, quiet |-> TRUE, act |-> active[ii], all |-> <<active, mq, dq, pool, hist, running>>];
             call StartRoot(ii);
          };
       } or {
          \* stop
          with (ii \in IF Mode = "trace" THEN (IF HasLine /\ CurLine.k = "call" /\ CurLine.op = "stop" THEN {CurLine.i} ELSE {})
                       ELSE {jj \in Insts : running[jj][Def.root] /\ "stop" \in Apis}) {
             if (Mode = "trace") { l := l + 1; } else { await ncalls < MaxCalls; budget := IF BudgetPerCall \/ ncalls = 0 THEN Budget ELSE budget; path := Append(path, [call |-> "stop", i |-> ii, e |-> "", p |-> 0]); };
             ncalls := ncalls + 1; cbn := 0; obs := <<>>; wasreset := FALSE;
             gvmemo := [gg \in Def.guards |-> IF gg \in Def.sticky THEN gvmemo[gg] ELSE "u"];
             lastcall := [op |-> "stop", i |-> ii, e |-> "", p |-> 0]; nothrow := TRUE;
             gvc := IF Mode = "trace" THEN [gg \in Def.condguards |-> IF Def.gidx[gg] <= Len(Trace[l-1].gv) THEN Trace[l-1].gv[Def.gidx[gg]] ELSE FALSE] ELSE gvc;
             pre := [blocked |-> FALSE, quiet |-> TRUE, act |-> active[ii], all |-> <<active, mq, dq, pool, hist, running>>];
             call StopRoot(ii);
          };
       } or {
          \* process_event
          with (cc \in IF Mode = "trace" THEN (IF HasLine /\ CurLine.k = "call" /\ CurLine.op = "pe" THEN {[i |-> CurLine.i, e |-> CurLine.e, p |-> CurLine.p, gc |-> gvc]} ELSE {})
                       ELSE {[i |-> jj, e |-> ee, p |-> nextp, gc |-> gx] : jj \in {kk \in Insts : running[kk][Def.root] /\ "pe" \in Apis}, ee \in EventTypes, gx \in [Def.condguards -> BOOLEAN]}) {
             if (Mode = "trace") { l := l + 1; } else { await ncalls < MaxCalls; budget := IF BudgetPerCall \/ ncalls = 0 THEN Budget ELSE budget; nextp := nextp + 1; path := Append(path, [call |-> "pe", i |-> cc.i, e |-> cc.e, p |-> cc.p, gc |-> cc.gc]); };
             ncalls := ncalls + 1; cbn := 0; obs := <<>>; wasreset := FALSE;
             gvmemo := [gg \in Def.guards |-> IF gg \in Def.sticky THEN gvmemo[gg] ELSE "u"];
             lastcall := [op |-> "pe", i |-> cc.i, e |-> cc.e, p |-> cc.p]; nothrow := FALSE;
             gvc := IF Mode = "trace" THEN [gg \in Def.condguards |-> IF Def.gidx[gg] <= Len(Trace[l-1].gv) THEN Trace[l-1].gv[Def.gidx[gg]] ELSE FALSE] ELSE cc.gc;
             pre := [blocked |-> Blocked(cc.i, Def.root, cc.e), quiet |-> \A mm \in Machines : ~processing[cc.i][mm], act |-> active[cc.i], all |-> <<active, mq, dq, pool, hist, running>>];
             call PEI(cc.i, Def.root, [t |-> cc.e, p |-> cc.p], IF IsB THEN {"D"} ELSE {"direct"});
          };
       } or {
          \* enqueue_event from outside
          with (cc \in IF Mode = "trace" THEN (IF HasLine /\ CurLine.k = "call" /\ CurLine.op = "enq" THEN {[i |-> CurLine.i, e |-> CurLine.e, p |-> CurLine.p]} ELSE {})
                       ELSE {[i |-> jj, e |-> ee, p |-> nextp] : jj \in {kk \in Insts : running[kk][Def.root] /\ "enq" \in Apis}, ee \in EventTypes}) {
             if (Mode = "trace") { l := l + 1; } else { await ncalls < MaxCalls; budget := 0; nextp := nextp + 1; path := Append(path, [call |-> "enq", i |-> cc.i, e |-> cc.e, p |-> cc.p]); };
             ncalls := ncalls + 1; cbn := 0; wasreset := FALSE;
             obs := <<[k |-> "submit", i |-> cc.i, m |-> Def.root, id |-> "enq", e |-> cc.e, p |-> cc.p, r |-> TRUE, x |-> 0]>>;
             lastcall := [op |-> "enq", i |-> cc.i, e |-> cc.e, p |-> cc.p];
             pre := [blocked |-> FALSE, quiet |-> TRUE, act |-> active[cc.i], all |-> <<active, mq, dq, pool, hist, running>>];
             call Enqueue(cc.i, Def.root, [t |-> cc.e, p |-> cc.p]);
          };
       } or {
          \* execute_queued_events / execute_single_queued_event / process_event_pool([1])
          with (cc \in IF Mode = "trace" THEN (IF HasLine /\ CurLine.k = "call" /\ CurLine.op \in {"drain", "drain1"} THEN {[i |-> CurLine.i, op |-> CurLine.op]} ELSE {})
                       ELSE {[i |-> jj, op |-> oo] : jj \in {kk \in Insts : running[kk][Def.root]}, oo \in {"drain", "drain1"} \cap Apis}) {
             if (Mode = "trace") { l := l + 1; } else { await ncalls < MaxCalls; budget := IF BudgetPerCall \/ ncalls = 0 THEN Budget ELSE budget; path := Append(path, [call |-> cc.op, i |-> cc.i, e |-> "", p |-> 0]); };
             ncalls := ncalls + 1; cbn := 0; obs := <<>>; wasreset := FALSE;
             gvmemo := [gg \in Def.guards |-> IF gg \in Def.sticky THEN gvmemo[gg] ELSE "u"];
             lastcall := [op |-> cc.op, i |-> cc.i, e |-> "", p |-> 0]; nothrow := FALSE;
             gvc := IF Mode = "trace" THEN [gg \in Def.condguards |-> IF Def.gidx[gg] <= Len(Trace[l-1].gv) THEN Trace[l-1].gv[Def.gidx[gg]] ELSE FALSE] ELSE gvc;
             pre := [blocked |-> FALSE, quiet |-> TRUE, act |-> active[cc.i], all |-> <<active, mq, dq, pool, hist, running>>];
             if (IsB) { call DrainB(cc.i, Def.root, IF cc.op = "drain1" THEN 1 ELSE 0); }
             else { call PoolM(cc.i, Def.root, IF cc.op = "drain1" THEN 1 ELSE 0); };
          };
       } or {
          \* Boost.Serialization round trip (back / back11): instance j is a freshly constructed machine into which the archive of i is loaded.
          \* Saved: active ids at every level, history, the processing flag, data of the states / front-ends that opt in.  Queues are not saved.
          with (cc \in IF Mode = "trace" THEN (IF HasLine /\ CurLine.k = "call" /\ CurLine.op = "saveload" THEN {[i |-> CurLine.i, j |-> CurLine.j]} ELSE {})
                       ELSE {cx \in {[i |-> ii, j |-> jj] : ii \in {kk \in Insts : running[kk][Def.root] /\ "saveload" \in Apis /\ IsB}, jj \in Insts} : cx.i # cx.j /\ ~used[cx.j]}) {
             if (Mode = "trace") { l := l + 1; } else { await ncalls < MaxCalls; path := Append(path, [call |-> "saveload", i |-> cc.i, e |-> "", p |-> cc.j]); };
             ncalls := ncalls + 1; cbn := 0; obs := <<>>; wasreset := FALSE;
             lastcall := [op |-> "saveload", i |-> cc.j, e |-> "", p |-> cc.i];
             pre := [blocked |-> FALSE, quiet |-> TRUE, act |-> active[cc.i], all |-> <<active, mq, dq, pool, hist, running>>];
             active[cc.j] := active[cc.i]; running[cc.j] := running[cc.i]; processing[cc.j] := processing[cc.i];
             mq[cc.j] := [mm \in Machines |-> <<>>]; dq[cc.j] := [mm \in Machines |-> <<>>]; curseq[cc.j] := [mm \in Machines |-> 0];
             pool[cc.j] := [mm \in Machines |-> <<>>]; seqcnt[cc.j] := [mm \in Machines |-> 0]; hist[cc.j] := hist[cc.i];
             ledger[cc.j] := ledger[cc.i]; encnt[cc.j] := [kk \in LedgerKeys |-> IF SerKey(kk) THEN encnt[cc.i][kk] ELSE 0]; lastcfg[cc.j] := lastcfg[cc.i];
             sawexc[cc.j] := sawexc[cc.i]; stored[cc.j] := [mm \in Machines |-> <<>>]; dispd[cc.j] := [mm \in Machines |-> <<>>];
             defd[cc.j] := {}; dropped[cc.j] := {}; defseq[cc.j] := <<>>; hdl[cc.j] := <<>>;
             used[cc.j] := TRUE;
             ret := 0;
          };
       } or {
          \* destruction of a machine object: everything it still holds goes away with it
          with (ii \in IF Mode = "trace" THEN (IF HasLine /\ CurLine.k = "call" /\ CurLine.op = "destroy" THEN {CurLine.i} ELSE {}) ELSE {}) {
             l := l + 1; ncalls := ncalls + 1; cbn := 0; obs := <<>>; wasreset := FALSE;
             lastcall := [op |-> "destroy", i |-> ii, e |-> "", p |-> 0];
             running[ii] := [mm \in Machines |-> FALSE]; processing[ii] := [mm \in Machines |-> FALSE];
             mq[ii] := [mm \in Machines |-> <<>>]; dq[ii] := [mm \in Machines |-> <<>>]; pool[ii] := [mm \in Machines |-> <<>>];
             active[ii] := [mm \in Machines |-> MD(mm).init]; hist[ii] := InitHist; curseq[ii] := [mm \in Machines |-> 0]; seqcnt[ii] := [mm \in Machines |-> 0];
             ledger[ii] := [kk \in LedgerKeys |-> 0]; encnt[ii] := [kk \in LedgerKeys |-> 0]; used[ii] := FALSE; lastcfg[ii] := [mm \in Machines |-> MD(mm).init];
             ret := 0;
          };
       } or {
          \* copy construction / copy assignment of a quiescent machine: instance j becomes a copy of instance i
          with (cc \in IF Mode = "trace" THEN (IF HasLine /\ CurLine.k = "call" /\ CurLine.op \in {"copy", "assign", "move", "moveassign"} THEN {[i |-> CurLine.i, j |-> CurLine.j, op |-> CurLine.op]} ELSE {})
                       ELSE {cx \in {[i |-> ii, j |-> jj, op |-> oo] : ii \in {kk \in Insts : running[kk][Def.root]}, jj \in Insts, oo \in {"copy", "assign"} \cap Apis} :
                                   cx.i # cx.j /\ (cx.op = "copy" => ~used[cx.j])}) {
             if (Mode = "trace") { l := l + 1; } else { await ncalls < MaxCalls; path := Append(path, [call |-> cc.op, i |-> cc.i, e |-> "", p |-> cc.j]); };
             ncalls := ncalls + 1; cbn := 0; obs := <<>>; wasreset := FALSE;
             lastcall := [op |-> cc.op, i |-> cc.j, e |-> "", p |-> cc.i];
             pre := [blocked |-> FALSE, quiet |-> TRUE, act |-> active[cc.i], all |-> <<active, mq, dq, pool, hist, running>>];
             active[cc.j] := active[cc.i]; running[cc.j] := running[cc.i]; processing[cc.j] := processing[cc.i];
             mq[cc.j] := mq[cc.i]; dq[cc.j] := dq[cc.i]; curseq[cc.j] := curseq[cc.i];      \* closures keep the object they were bound to
             pool[cc.j] := pool[cc.i]; seqcnt[cc.j] := seqcnt[cc.i]; hist[cc.j] := hist[cc.i];
             ledger[cc.j] := ledger[cc.i]; encnt[cc.j] := encnt[cc.i]; sawexc[cc.j] := sawexc[cc.i]; lastcfg[cc.j] := lastcfg[cc.i]; stored[cc.j] := stored[cc.i]; dispd[cc.j] := dispd[cc.i];
             defd[cc.j] := defd[cc.i]; dropped[cc.j] := dropped[cc.i]; defseq[cc.j] := defseq[cc.i]; hdl[cc.j] := hdl[cc.i]; ins[cc.j] := ins[cc.i];
             used[cc.j] := TRUE;
             ret := 0;
             \* move construction / move assignment: the target takes over the source's state, the moved-from machine is destroyed afterwards
             \* (back / back11 have no move operations: there the call is a copy and the source object stays behind)
             if (cc.op \in {"move", "moveassign"} /\ IsM) { movedfrom := cc.i; } else { movedfrom := -1; };
          };
MV:       if (movedfrom >= 0) {
             running[movedfrom] := [mm \in Machines |-> FALSE]; processing[movedfrom] := [mm \in Machines |-> FALSE];
             mq[movedfrom] := [mm \in Machines |-> <<>>]; dq[movedfrom] := [mm \in Machines |-> <<>>]; pool[movedfrom] := [mm \in Machines |-> <<>>];
             active[movedfrom] := [mm \in Machines |-> MD(mm).init]; hist[movedfrom] := InitHist;
             curseq[movedfrom] := [mm \in Machines |-> 0]; seqcnt[movedfrom] := [mm \in Machines |-> 0];
             ledger[movedfrom] := [kk \in LedgerKeys |-> 0]; encnt[movedfrom] := [kk \in LedgerKeys |-> 0];
             lastcfg[movedfrom] := [mm \in Machines |-> MD(mm).init]; used[movedfrom] := FALSE;
             movedfrom := -1;
          };
       };
M1:    if (Mode = "trace" /\ ~wasreset) {
          await HasLine /\ CurLine.k = "ret" /\ ~CurLine.esc /\ CurLine.bad = 0
                /\ (LET held == IF IsB THEN [ii \in Insts |-> [mm \in Machines |-> CountedIn(mq[ii][mm]) + CountedIn(dq[ii][mm])]]
                                 ELSE [ii \in Insts |-> [mm \in Machines |-> CountedIn(SelectSeq(pool[ii][mm], LAMBDA pe : pe.kind = "ev" /\ ~pe.marked))]]
                         tot[ss \in SUBSET (Insts \X Machines)] == IF ss = {} THEN 0 ELSE LET x == CHOOSE y \in ss : TRUE IN held[x[1]][x[2]] + tot[ss \ {x}]
                     IN IF IsB THEN CurLine.live = tot[Insts \X Machines] ELSE CurLine.live >= tot[Insts \X Machines])
                /\ (IF lastcall.op = "pe" THEN (CurLine.rv % 2) = (ret % 2) /\ ((CurLine.rv = 0) <=> (ret = 0))
                    ELSE IF lastcall.op \in {"drain", "drain1"} /\ IsM THEN CurLine.rv = ret       \* process_event_pool returns the number of processed events
                    ELSE TRUE)
                /\ (IF running[lastcall.i][Def.root]
                    THEN /\ DOMAIN CurLine.st = ActiveTree(lastcall.i, Def.root)
                         /\ \A mm \in ActiveTree(lastcall.i, Def.root) : CurLine.st[mm] = Ids(mm, active[lastcall.i][mm])
                         /\ CurLine.fl = FlagVec(lastcall.i, Def.root)
                         /\ (CurLine.isa = <<>> \/ CurLine.isa = IsaVec(lastcall.i))
                         \* active-state visitor: backmp11 visit(), back / back11 visit_current_states() ("-": the driver's front-end has no visitor)
                         /\ (CurLine.vis = <<"-">> \/ CurLine.vis = VisitSeq(lastcall.i, Def.root, 1))
                         \* back / back11 get_state_by_id(id) for the id of every region of every active machine names the active state
                         /\ (DOMAIN CurLine.gs = {} \/ (/\ DOMAIN CurLine.gs = ActiveTree(lastcall.i, Def.root)
                                                        /\ \A mm \in ActiveTree(lastcall.i, Def.root) : CurLine.gs[mm] = active[lastcall.i][mm]))
                         /\ \A mm \in ActiveTree(lastcall.i, Def.root) :
                               CurLine.dt[mm] = <<encnt[lastcall.i][OwnKey(mm)]>> \o [kk \in 1..Len(MD(mm).dorder) |-> encnt[lastcall.i][<<mm, MD(mm).dorder[kk]>>]]
                         /\ \A mm \in ActiveTree(lastcall.i, Def.root) :
                               IF IsB THEN CurLine.q[mm] = <<Len(mq[lastcall.i][mm]), Len(dq[lastcall.i][mm])>>
                               ELSE CurLine.q[mm] = <<Cardinality({kk \in 1..Len(pool[lastcall.i][mm]) : ~pool[lastcall.i][mm][kk].marked})>>
                    ELSE TRUE);
          l := l + 1;
       };
    }
}
} *)
====
