---- MODULE Puml ----
(***************************************************************************)
(* Generator specification for the documented PlantUML transition-line     *)
(* grammar accepted by boost::msm::front::puml.  The state is a partially  *)
(* written line together with the fields it is *meant* to denote; every    *)
(* complete line reachable within the bounds is printed with its intended  *)
(* source, target, event, guard text and action list.  A C++ harness calls *)
(* detail::parse_row / count_actions / parse_action / parse_stt / ...      *)
(* on every printed line and compares field by field (C14).                *)
(*   <source> <arrow> <target> [ : [-]<event> [ / a1, a2 ] [ [guard] ] ]   *)
(* with 1-4 dashes in the arrow, blanks at every joint, the guard before   *)
(* or after the actions, 0-3 actions, guards with ! && || and one level    *)
(* of parentheses.                                                         *)
(***************************************************************************)
EXTENDS Naturals, Sequences, TLC
CONSTANTS Pads, Idents, Guards, MaxActs

VARIABLES stage, line, src, tgt, ev, internal, acts, guard
vars == <<stage, line, src, tgt, ev, internal, acts, guard>>

Arrows == {"->", "-->", "--->", "---->"}
ActNames == <<"act1", "Act_2", "a3">>
RECURSIVE JoinActs(_, _)
JoinActs(n, sep) == IF n = 0 THEN "" ELSE IF n = 1 THEN ActNames[1] ELSE JoinActs(n-1, sep) \o sep \o ActNames[n]

Init == stage = "src" /\ line = "" /\ src = "" /\ tgt = "" /\ ev = "" /\ internal = FALSE /\ acts = 0 /\ guard = ""

Src == /\ stage = "src"
       /\ \E p \in Pads, s \in Idents : line' = p \o s /\ src' = s
       /\ stage' = "arrow" /\ UNCHANGED <<tgt, ev, internal, acts, guard>>
Arrow == /\ stage = "arrow"
         /\ \E p \in Pads, a \in Arrows : line' = line \o p \o a
         /\ stage' = "tgt" /\ UNCHANGED <<src, tgt, ev, internal, acts, guard>>
Tgt == /\ stage = "tgt"
       /\ \E p \in Pads, t \in Idents : line' = line \o p \o t /\ tgt' = t
       /\ stage' = "colon" /\ UNCHANGED <<src, ev, internal, acts, guard>>
\* either the line ends here (no trigger: completion transition) or a trigger follows
EndPlain == /\ stage = "colon"
            /\ \E p \in Pads : line' = line \o p
            /\ stage' = "done" /\ UNCHANGED <<src, tgt, ev, internal, acts, guard>>
Event == /\ stage = "colon"
         /\ \E p \in Pads, q \in Pads, e \in Idents, i \in BOOLEAN :
               /\ line' = line \o p \o ":" \o q \o (IF i THEN "-" ELSE "") \o e
               /\ ev' = e /\ internal' = i
         /\ stage' = "parts" /\ UNCHANGED <<src, tgt, acts, guard>>
ActText(n, p) == IF n = 0 THEN "" ELSE p \o "/" \o p \o JoinActs(n, "," \o p)
GuardText(g, p) == IF g = "" THEN "" ELSE p \o "[" \o p \o g \o p \o "]"
Parts == /\ stage = "parts"
         /\ \E n \in 0..MaxActs, g \in Guards \cup {""}, p \in Pads, first \in {"a", "g"} :
               /\ acts' = n /\ guard' = g
               /\ line' = IF first = "a" THEN line \o ActText(n, p) \o GuardText(g, p) ELSE line \o GuardText(g, p) \o ActText(n, p)
         /\ stage' = "done" /\ UNCHANGED <<src, tgt, ev, internal>>
Done == stage = "done" /\ UNCHANGED vars
Next == Src \/ Arrow \/ Tgt \/ EndPlain \/ Event \/ Parts \/ Done
Spec == Init /\ [][Next]_vars

\* the fields the line is meant to denote ( '#' separated; the harness compares them with what the library extracts )
Emit == (stage = "done") =>
          PrintT("L#" \o line \o "#" \o src \o "#" \o (IF internal THEN "" ELSE tgt) \o "#" \o ev \o "#" \o guard \o "#" \o JoinActs(acts, ","))
TypeOK == stage \in {"src", "arrow", "tgt", "colon", "parts", "done"} /\ acts \in 0..MaxActs
====
