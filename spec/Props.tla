---- MODULE Props ----
(***************************************************************************)
(* The listed properties as formulas over the variables of MSM.tla.        *)
(* They are written against the structural markers and callbacks recorded  *)
(* in obs (the log of the current top-level API call) and the ghost        *)
(* ledgers, using declarative oracles computed from Def (priority lists,   *)
(* short-circuit guard evaluation, ...), not the operational procedures.   *)
(* Evaluated by TLC on every state of the exhaustive model-checking runs   *)
(* and on every state of every validated implementation trace.             *)
(* All bound identifiers carry a q prefix (PlusCal variables are global).  *)
(***************************************************************************)
EXTENDS MSM, SequencesExt

Quiescent == pc = "M1"
QLen == Len(obs)
IsCb(qrec) == qrec.k \in {"g", "a", "en", "ex", "nt", "xc"}

\* ---------------------------------------------------------------- segment helpers
\* position of the dispend matching the disp at qi (scan from qj), 0 if none
RECURSIVE QMatchEnd(_, _, _)
QMatchEnd(qo, qj, qdepth) == IF qj > Len(qo) THEN 0
    ELSE IF qo[qj].k = "disp" THEN QMatchEnd(qo, qj+1, qdepth+1)
    ELSE IF qo[qj].k = "dispend" THEN (IF qdepth = 0 THEN qj ELSE QMatchEnd(qo, qj+1, qdepth-1))
    ELSE QMatchEnd(qo, qj+1, qdepth)
\* indices strictly between qk and qj that are not inside a nested disp..dispend segment (the nested disp itself is kept)
RECURSIVE QDirect(_, _, _, _)
QDirect(qo, qk, qj, qacc) == IF qk >= qj THEN qacc
    ELSE IF qo[qk].k = "disp"
         THEN LET qe == QMatchEnd(qo, qk+1, 0) IN IF qe = 0 THEN qacc ELSE QDirect(qo, qe + 1, qj, Append(qacc, qk))
    ELSE QDirect(qo, qk+1, qj, Append(qacc, qk))
\* position of the peiend matching the pei at qi, 0 if none
RECURSIVE QPeiEnd(_, _, _)
QPeiEnd(qo, qj, qdepth) == IF qj > Len(qo) THEN 0
    ELSE IF qo[qj].k = "pei" THEN QPeiEnd(qo, qj+1, qdepth+1)
    ELSE IF qo[qj].k = "peiend" THEN (IF qdepth = 0 THEN qj ELSE QPeiEnd(qo, qj+1, qdepth-1))
    ELSE QPeiEnd(qo, qj+1, qdepth)
\* indices strictly between qk and qj that are not inside a nested pei..peiend segment
RECURSIVE QOutsidePei(_, _, _, _)
QOutsidePei(qo, qk, qj, qacc) == IF qk >= qj THEN qacc
    ELSE IF qo[qk].k = "pei"
         THEN LET qe == QPeiEnd(qo, qk+1, 0) IN IF qe = 0 THEN qacc ELSE QOutsidePei(qo, qe + 1, qj, qacc)
    ELSE QOutsidePei(qo, qk+1, qj, Append(qacc, qk))

\* ---------------------------------------------------------------- C01: priority list and guard walk
\* rows of state qs of machine qm reacting to event type qet, highest priority first:
\* the state's own internal table (last declared first), then the table rows (last declared first)
QPrio(qm, qs, qet) ==
   LET qit == { qk \in 1..Len(MD(qm).itab[qs]) : Matches(MD(qm).itab[qs][qk].ev, qet) }
       qtb == { qk \in 1..Len(MD(qm).table) : MD(qm).table[qk].src = qs /\ Matches(MD(qm).table[qk].ev, qet) }
       qits == SetToSortSeq(qit, LAMBDA qa, qb : qa > qb)
       qtbs == SetToSortSeq(qtb, LAMBDA qa, qb : qa > qb)
   IN [qk \in 1..Len(qits) |-> [g |-> MD(qm).itab[qs][qits[qk]].g, idx |-> qits[qk], tab |-> "itab"]]
      \o [qk \in 1..Len(qtbs) |-> [g |-> MD(qm).table[qtbs[qk]].g, idx |-> qtbs[qk], tab |-> "table"]]
QPrioSm(qm, qet) ==
   LET qtb == { qk \in 1..Len(MD(qm).smtab) : Matches(MD(qm).smtab[qk].ev, qet) }
       qtbs == SetToSortSeq(qtb, LAMBDA qa, qb : qa > qb)
   IN [qk \in 1..Len(qtbs) |-> [g |-> MD(qm).smtab[qtbs[qk]].g, idx |-> qtbs[qk], tab |-> "smtab"]]
\* evaluate a guard expression against the observed atom evaluations (ids qG, results qGR) from position qpos,
\* with the short-circuit rules of && and ||; returns [ok, val, pos]
RECURSIVE QEval(_, _, _, _)
QEval(qexpr, qG, qGR, qpos) ==
   IF qexpr = <<>> THEN [ok |-> TRUE, val |-> TRUE, pos |-> qpos]
   ELSE IF qexpr[1] = "atom" THEN
        IF qpos > Len(qG) \/ qG[qpos] # qexpr[2] THEN [ok |-> FALSE, val |-> FALSE, pos |-> qpos]
        ELSE [ok |-> TRUE, val |-> qGR[qpos], pos |-> qpos + 1]
   ELSE IF qexpr[1] = "not" THEN
        LET qx == QEval(qexpr[2], qG, qGR, qpos) IN [ok |-> qx.ok, val |-> ~qx.val, pos |-> qx.pos]
   ELSE LET qx == QEval(qexpr[2], qG, qGR, qpos) IN
        IF ~qx.ok THEN qx
        ELSE IF qexpr[1] = "and" /\ ~qx.val THEN qx
        ELSE IF qexpr[1] = "or" /\ qx.val THEN qx
        ELSE QEval(qexpr[3], qG, qGR, qx.pos)
\* walk the priority list: every guard up to and including the first true one is evaluated, nothing else
RECURSIVE QWalk(_, _, _, _)
QWalk(qrows, qpos, qG, qGR) ==
   IF qrows = <<>> THEN [ok |-> qpos = Len(qG) + 1, idx |-> 0, tab |-> ""]
   ELSE LET qrw == Head(qrows)
            qx == QEval(qrw.g, qG, qGR, qpos)
        IN IF ~qx.ok THEN [ok |-> FALSE, idx |-> 0, tab |-> ""]
           ELSE IF qx.val THEN [ok |-> qx.pos = Len(qG) + 1, idx |-> qrw.idx, tab |-> qrw.tab]
           ELSE QWalk(Tail(qrows), qx.pos, qG, qGR)
QTakeTab(qrec) == IF qrec.id \in {"table", "smtab"} THEN qrec.id ELSE "itab"      \* for itab rows the take marker names the owning state
HasXpRows(qm) == \E qk \in 1..Len(MD(qm).table) : MD(qm).table[qk].xp # ""
QSegOK(qo, qi) ==
   LET qj   == QMatchEnd(qo, qi+1, 0)
       qm   == qo[qi].m
       qst  == qo[qi].id
       qdir == QDirect(qo, qi+1, qj, <<>>)
       \* the submachine consumed this occurrence (its process_event_internal returned handled or deferred)
       qinner == \E qq \in 1..Len(qdir) : LET qr == qo[qdir[qq]] IN
                    \/ qr.k = "peiend" /\ qr.m = qst /\ qr.e = qo[qi].e /\ qr.p = qo[qi].x /\ qr.i = qo[qi].i /\ Consumed(qr.x)
                    \* ... or swallowed it because a terminate / interrupt state is active in it (C11)
                    \/ qr.k = "blk" /\ qr.m = qst /\ qr.e = qo[qi].e /\ qr.p = qo[qi].x /\ qr.i = qo[qi].i /\ ~(IsB /\ qr.e = "none")
       qgidx == SelectSeq(qdir, LAMBDA qx : qo[qx].k = "g" /\ qo[qx].m = qm /\ qo[qx].i = qo[qi].i)
       qG    == [qq \in 1..Len(qgidx) |-> qo[qgidx[qq]].id]
       qGR   == [qq \in 1..Len(qgidx) |-> qo[qgidx[qq]].r]
       qtakes == SelectSeq(qdir, LAMBDA qx : qo[qx].k = "take" /\ qo[qx].m = qm /\ qo[qx].i = qo[qi].i)
       qrows == IF qo[qi].p = 0 THEN QPrioSm(qm, qo[qi].e) ELSE QPrio(qm, qst, qo[qi].e)
       qw    == QWalk(qrows, 1, qG, qGR)
       qdeferred == \E qq \in 1..Len(qdir) : qo[qdir[qq]].k = "deferred" /\ qo[qdir[qq]].m = qm /\ qo[qdir[qq]].id = "state"
   IN IF qj = 0 \/ qo[qj].p = -1 THEN TRUE                      \* aborted by an exception: C12
      ELSE IF HasXpRows(qm) THEN TRUE                             \* exit-point rows are conditional candidates: C09
      ELSE IF qinner THEN qG = <<>> /\ qtakes = <<>>
      ELSE IF qdeferred /\ ~(IsB /\ Cfg.fct) THEN qG = <<>> /\ qtakes = <<>>
      ELSE /\ qw.ok
           /\ IF qw.idx = 0 THEN qtakes = <<>>
              ELSE Len(qtakes) = 1 /\ qo[qtakes[1]].p = qw.idx /\ QTakeTab(qo[qtakes[1]]) = qw.tab
P_C01 == Quiescent => \A qi \in 1..QLen : (obs[qi].k = "disp") => QSegOK(obs, qi)

\* ---------------------------------------------------------------- C02: order inside one transition
\* (the "taken" marker of a take lies inside the same dispatch: before the dispend that closes the dispatch the take belongs to -
\* a later dispatch may take the same row again)
QTakenPos(qo, qi) == LET qde == QMatchEnd(qo, qi+1, 0)
                         qc == { qj \in (qi+1)..(IF qde = 0 THEN Len(qo) ELSE qde) : qo[qj].k = "taken" /\ qo[qj].m = qo[qi].m /\ qo[qj].i = qo[qi].i
                                                   /\ qo[qj].p = qo[qi].p /\ qo[qj].x = qo[qi].x }
                     IN IF qc = {} THEN 0 ELSE CHOOSE qj \in qc : \A qk \in qc : qj <= qk
QRowOfTake(qrec) == IF qrec.id = "table" THEN MD(qrec.m).table[qrec.p]
                    ELSE IF qrec.id = "smtab" THEN MD(qrec.m).smtab[qrec.p]
                    ELSE MD(qrec.m).itab[qrec.id][qrec.p]
QActAtoms(qacts) == SelectSeq(qacts, LAMBDA qa : qa # "defer")
QTransOK(qo, qi) ==
   LET qj == QTakenPos(qo, qi)
       qm == qo[qi].m
       qrow == QRowOfTake(qo[qi])
       \* nested run-to-completion steps are not part of this transition: the processing of queued occurrences (pei .. peiend) and the
       \* completion dispatches backmp11 performs when it drains the pool at the end of a submachine's entry (disp .. dispend)
       qdirect == QDirect(qo, qi+1, qj, <<>>)
       qwin == SelectSeq(QOutsidePei(qo, qi+1, qj, <<>>), LAMBDA qx : \E qq \in 1..Len(qdirect) : qdirect[qq] = qx)
       qcbs == SelectSeq(qwin, LAMBDA qx : IsCb(qo[qx]) /\ qo[qx].i = qo[qi].i)
       qkinds == [qq \in 1..Len(qcbs) |-> qo[qcbs[qq]].k]
       qexs == SelectSeq(qcbs, LAMBDA qx : qo[qx].k = "ex")
       qacs == SelectSeq(qcbs, LAMBDA qx : qo[qx].k = "a")
       qens == SelectSeq(qcbs, LAMBDA qx : qo[qx].k = "en")
       qnex == Len(qexs)   qnac == Len(qacs)   qnen == Len(qens)
   IN IF qj = 0 THEN TRUE          \* aborted
      ELSE IF qo[qi].r THEN        \* internal transition: guard (already before) and action only
           /\ Len(qcbs) = qnac
           /\ [qq \in 1..qnac |-> qo[qacs[qq]].id] = QActAtoms(qrow.a)
      ELSE \* exits, then actions, then entries: the three groups do not interleave
           /\ Len(qcbs) = qnex + qnac + qnen
           /\ \A qq \in 1..Len(qcbs) : qkinds[qq] = (IF qq <= qnex THEN "ex" ELSE IF qq <= qnex + qnac THEN "a" ELSE "en")
           \* the source's own exit is the last exit and happens exactly once; everything before it is inside the source
           /\ qnex >= 1 /\ qo[qexs[qnex]].m = qm /\ qo[qexs[qnex]].id = qrow.src
           /\ \A qq \in 1..(qnex-1) : qo[qexs[qq]].m # qm
           /\ [qq \in 1..qnac |-> qo[qacs[qq]].id] = QActAtoms(qrow.a)
           \* the target's own entry is the first entry and happens exactly once; everything after it is inside the target
           /\ qnen >= 1 /\ qo[qens[1]].m = qm /\ qo[qens[1]].id = qrow.tgt
           /\ \A qq \in 2..qnen : qo[qens[qq]].m # qm
           \* all behaviours of the transition receive the occurrence that triggered it
           /\ \A qq \in 1..Len(qcbs) : qo[qcbs[qq]].e = qo[qi].e
\* a dispatch that takes nothing runs no exit / action / entry at its own level
QNoTakeOK(qo, qi) ==
   LET qj == QMatchEnd(qo, qi+1, 0)
       qdir == QDirect(qo, qi+1, qj, <<>>)
       qwin == SelectSeq(qdir, LAMBDA qx : TRUE)
       qpeis == { qx \in (qi+1)..(IF qj = 0 THEN 0 ELSE qj - 1) : qo[qx].k = "pei" }
   IN IF qj = 0 \/ qo[qj].p = -1 THEN TRUE
      ELSE (\A qq \in 1..Len(qdir) : qo[qdir[qq]].k # "take") =>
              \A qq \in 1..Len(qdir) : LET qr == qo[qdir[qq]] IN
                    (qr.m = qo[qi].m /\ qr.i = qo[qi].i /\ qr.k \in {"ex", "a", "en"}) =>
                        \* ... unless it belongs to a nested process_event_internal (a submachine's own processing of queued events)
                        \E qx \in qpeis : qx < qdir[qq] /\ QPeiEnd(qo, qx+1, 0) > qdir[qq]
P_C02 == Quiescent => /\ \A qi \in 1..QLen : (obs[qi].k = "take") => QTransOK(obs, qi)
                      /\ \A qi \in 1..QLen : (obs[qi].k = "disp") => QNoTakeOK(obs, qi)

\* ---------------------------------------------------------------- C03: ledger and configuration
QActiveKeys(qi) == {<<Def.root, Def.root>>} \cup
                   UNION { {<<qm, active[qi][qm][qr]>> : qr \in 1..NReg(qm)} : qm \in ActiveTree(qi, Def.root) }
QRegionsOK(qi) == \A qm \in ActiveTree(qi, Def.root) : \A qr \in 1..NReg(qm) :
                     active[qi][qm][qr] \in StatesOf(qm) /\ RegOf(qm, active[qi][qm][qr]) = qr
P_C03 == (Quiescent \/ pc = "CB2") => \A qi \in Insts : ~sawexc[qi] =>
            \* entry and exit alternate, starting with entry (evaluated right after every behaviour and at quiescence)
            /\ \A qk \in LedgerKeys : ledger[qi][qk] \in {0, 1}
            /\ Quiescent =>
                 IF running[qi][Def.root]
                 THEN /\ QRegionsOK(qi)
                      /\ \A qk \in LedgerKeys : (ledger[qi][qk] = 1) <=> (qk \in QActiveKeys(qi))
                 ELSE \A qk \in LedgerKeys : ledger[qi][qk] = 0      \* stop() exited everything exactly once
\* a substate is only entered while its submachine is entered
QParentOf(qm) == ParentOf(qm)
P_C03b == (pc = "CB2" /\ QLen > 0 /\ obs[QLen].k = "en" /\ obs[QLen].m # Def.root /\ ~sawexc[obs[QLen].i]) =>
             ledger[obs[QLen].i][<<QParentOf(obs[QLen].m), obs[QLen].m>>] = 1

\* ---------------------------------------------------------------- C04: run to completion, FIFO, exactly once
\* no re-entrancy: while a machine runs a transition it does not start processing another occurrence
\* (a transition aborted by an exception ends where exception_caught is invoked)
QNoReentry(qo, qi) == LET qj == QTakenPos(qo, qi)
                          qxc == { qx \in (qi+1)..Len(qo) : qo[qx].k = "xc" /\ qo[qx].i = qo[qi].i }
                          qend == IF qj # 0 THEN qj ELSE IF qxc = {} THEN Len(qo) ELSE CHOOSE qx \in qxc : \A qy \in qxc : qx <= qy
                      IN
     \A qx \in (qi+1)..qend : ~(qo[qx].k = "pei" /\ qo[qx].m = qo[qi].m /\ qo[qx].i = qo[qi].i)
QNoDup(qs) == \A qa, qb \in 1..Len(qs) : qa # qb => qs[qa] # qs[qb]
QInSeq(qx, qs) == \E qa \in 1..Len(qs) : qs[qa] = qx
P_C04a == Quiescent => \A qi \in 1..QLen : (obs[qi].k = "take" /\ ~obs[qi].r) => QNoReentry(obs, qi)
P_C04b == Quiescent => \A qi \in Insts : \A qm \in Machines :
              LET qD == SelectSeq(dispd[qi][qm], LAMBDA qp : QInSeq(qp, stored[qi][qm]) /\ qp \notin defd[qi])
                  qS == SelectSeq(stored[qi][qm], LAMBDA qp : qp \notin defd[qi] /\ qp \notin dropped[qi])
              IN /\ QNoDup(SelectSeq(dispd[qi][qm], LAMBDA qp : qp \notin defd[qi]))      \* exactly once
                 /\ IsPrefix(qD, qS)                                                       \* in submission order
         \* nothing is left behind: at quiescence whatever was stored and never deferred has been dispatched (or documented as dropped)
P_C04c == Quiescent => \A qi \in Insts : \A qm \in ActiveTree(qi, Def.root) :
              (running[qi][Def.root] /\ lastcall.op = "pe" /\ lastcall.i = qi /\ pre.quiet /\ ~pre.blocked /\ ~(IsM /\ ret = 4)) =>
                  \A qk \in 1..Len(stored[qi][qm]) : LET qp == stored[qi][qm][qk] IN
                      qp \in defd[qi] \/ qp \in dropped[qi] \/ QInSeq(qp, dispd[qi][qm])
                      \/ (IsB /\ \E qq \in 1..Len(mq[qi][qm]) : mq[qi][qm][qq].occ.p = qp /\ processing[qi][qm])
                      \* backmp11: still pending because the active configuration defers its type
                      \/ (IsM /\ \E qq \in 1..Len(pool[qi][qm]) : pool[qi][qm][qq].occ.p = qp /\ ~pool[qi][qm][qq].marked
                                                                   /\ IsDeferredM(qi, qm, pool[qi][qm][qq].occ.t))
P_C04 == P_C04a /\ P_C04b /\ P_C04c

\* ---------------------------------------------------------------- C06: regions, result, no_transition
\* the part of obs that belongs to the processing of the call's own occurrence by the root: first root pei .. its peiend
QRootPei == LET qc == { qj \in 1..QLen : obs[qj].k = "pei" /\ obs[qj].m = Def.root /\ obs[qj].i = lastcall.i
                                          /\ obs[qj].e = lastcall.e /\ obs[qj].p = lastcall.p }
            IN IF qc = {} THEN 0 ELSE CHOOSE qj \in qc : \A qk \in qc : qj <= qk
QOccRec(qrec) == qrec.e = lastcall.e /\ qrec.i = lastcall.i
P_C06 == (Quiescent /\ lastcall.op = "pe" /\ pre.quiet /\ ~pre.blocked /\ ~sawexc[lastcall.i] /\ QRootPei # 0) =>
   LET qa == QRootPei
       qb == QPeiEnd(obs, qa+1, 0)
       \* everything that happens for this occurrence (forwarded dispatches included), nested other occurrences excluded
       qall == { qx \in (qa+1)..(qb-1) : obs[qx].i = lastcall.i }
       qdisp == SelectSeq([qq \in 1..(qb-qa-1) |-> qa + qq], LAMBDA qx : obs[qx].k = "disp" /\ obs[qx].m = Def.root /\ obs[qx].p >= 1
                                                                          /\ obs[qx].e = lastcall.e /\ obs[qx].x = lastcall.p /\ obs[qx].i = lastcall.i)
       qown == QOutsidePei(obs, qa+1, qb, <<>>)
       \* records of this occurrence: outside nested process_event_internal calls, or inside a forwarded call for the same occurrence
       qmine(qx) == \/ \E qq \in 1..Len(qown) : qown[qq] = qx
                    \/ \E qy \in (qa+1)..(qx-1) : obs[qy].k = "pei" /\ obs[qy].e = lastcall.e /\ obs[qy].p = lastcall.p
                                                  /\ QPeiEnd(obs, qy+1, 0) > qx
       qtook == \E qx \in qall : obs[qx].k = "take" /\ obs[qx].e = lastcall.e /\ qmine(qx)
       qtouched == \E qx \in qall : obs[qx].k \in {"take", "g", "deferred"} /\ obs[qx].e = lastcall.e /\ qmine(qx)
       qnts == SelectSeq([qq \in 1..QLen |-> qq], LAMBDA qx : obs[qx].k = "nt" /\ obs[qx].e = lastcall.e /\ obs[qx].p = lastcall.p /\ obs[qx].i = lastcall.i)
   IN qb # 0 =>
      \* every region once, in declaration order
      /\ [qq \in 1..Len(qdisp) |-> obs[qdisp[qq]].p] = [qq \in 1..NReg(Def.root) |-> qq]
      \* handled bit <=> some transition taken at some level
      /\ HasBit(ret, 1) <=> qtook
      \* zero <=> nothing matched anywhere (no guard consulted, nothing taken, not deferred)
      /\ (ret = 0) <=> ~qtouched
      \* no_transition exactly when zero: once per region, with that region's state id, on the root only
      /\ IF ret = 0
         THEN /\ Len(qnts) = NReg(Def.root)
              /\ \A qq \in 1..Len(qnts) : obs[qnts[qq]].m = Def.root /\ obs[qnts[qq]].x = IdOf(Def.root, active[lastcall.i][Def.root][qq])
         ELSE qnts = <<>>

\* ---------------------------------------------------------------- C07: a machine that is not active is silent
\* every behaviour runs on a machine of the active tree (or one being entered / exited by the running transition)
P_C07 == Quiescent => \A qi \in 1..QLen : (obs[qi].k = "nt") => (obs[qi].e # "none")

\* ---------------------------------------------------------------- C10: completion
P_C10 == /\ Quiescent => \A qi \in 1..QLen : ~(obs[qi].k = "nt" /\ obs[qi].e = "none")
         \* back / back11: after an occurrence was handled the next thing the machine processes is the completion event
         /\ (Quiescent /\ IsB) => \A qi \in 1..QLen :
               (obs[qi].k = "peiend" /\ HasBit(obs[qi].x, 1) /\ HasCompl(obs[qi].m)) =>
                   \* ("blk": the machine is blocked by a terminate / interrupt state and swallows the occurrence it is offered, C11)
                   LET qn == { qj \in (qi+1)..QLen : obs[qj].k \in {"pei", "blk"} /\ obs[qj].m = obs[qi].m /\ obs[qj].i = obs[qi].i } IN
                   qn # {} => obs[CHOOSE qj \in qn : \A qk \in qn : qj <= qk].e = "none"
         \* back / back11, entry form: once a state with completion rows has been entered, the next occurrence its machine processes
         \* is the completion event.  Known finding F8: when the state is entered as part of the entry of its submachine, the
         \* completion event is put into the submachine's message queue and the events kept in the deferred queue (or queued during
         \* the entry) are processed first; only that pattern is excused.
         /\ (Quiescent /\ IsB) => \A qi \in 1..QLen :
               (obs[qi].k = "en" /\ obs[qi].id \in StatesOf(obs[qi].m) /\ ~IsSub(obs[qi].m, obs[qi].id) /\ StateHasCompl(obs[qi].m, obs[qi].id)
                  /\ ~sawexc[obs[qi].i]) =>
                   LET qn == { qj \in (qi+1)..QLen : obs[qj].k \in {"pei", "blk"} /\ obs[qj].m = obs[qi].m /\ obs[qj].i = obs[qi].i }
                       qexcF8 == obs[qi].m # Def.root /\ \E qj \in 1..(qi-1) :
                                     /\ obs[qj].k = "en" /\ obs[qj].id = obs[qi].m /\ obs[qj].i = obs[qi].i
                                     /\ ~\E qk \in (qj+1)..(qi-1) : obs[qk].k = "pei" /\ obs[qk].m = obs[qi].m
                   IN qn # {} => (obs[CHOOSE qj \in qn : \A qk \in qn : qj <= qk].e = "none" \/ qexcF8)
         \* backmp11: after a transition into a state with completion rows, once the process_event_internal that took the transition
         \* has finished (the other regions are still offered the same occurrence), the machine's next dispatch is a completion dispatch
         /\ (Quiescent /\ IsM) => \A qi \in 1..QLen :
               (obs[qi].k = "taken" /\ ~obs[qi].r /\ ~IsSub(obs[qi].m, obs[qi].id) /\ StateHasCompl(obs[qi].m, obs[qi].id) /\ ~sawexc[obs[qi].i]) =>
                   LET qsame(qx) == obs[qx].m = obs[qi].m /\ obs[qx].i = obs[qi].i
                       qopen == { qj \in 1..(qi-1) : obs[qj].k = "pei" /\ qsame(qj) /\ QPeiEnd(obs, qj+1, 0) > qi }
                       qfrom == IF qopen = {} THEN qi ELSE QPeiEnd(obs, (CHOOSE qj \in qopen : \A qk \in qopen : qj >= qk) + 1, 0)
                       qn == { qj \in (qfrom+1)..QLen : obs[qj].k = "disp" /\ qsame(qj) }
                   IN (qfrom # 0 /\ qn # {}) => obs[CHOOSE qj \in qn : \A qk \in qn : qj <= qk].e = "none"

\* ---------------------------------------------------------------- C11: blocking states
P_C11 == (Quiescent /\ lastcall.op = "pe" /\ pre.blocked /\ pre.quiet) =>
            /\ \A qi \in 1..QLen : ~IsCb(obs[qi])
            /\ active[lastcall.i] = pre.act
            /\ ret = 1

\* ---------------------------------------------------------------- C12: exceptions
QCount(qo, qP(_)) == Cardinality({ qx \in 1..Len(qo) : qP(qo[qx]) })
P_C12 == /\ exc => TRUE
         \* the call returns without a pending exception and every throw was reported exactly once
         /\ Quiescent => ~exc
         \* not wedged: at quiescence no machine of the active tree is left in the "processing" state
         /\ Quiescent => \A qi \in Insts : running[qi][Def.root] =>
               \A qm \in ActiveTree(qi, Def.root) : ~processing[qi][qm]

\* ---------------------------------------------------------------- C17: flags are a function of the active configuration
QFlagOracleIn(qi, qtop, qf) == \E qm \in ActiveTree(qi, qtop) : \E qr \in 1..NReg(qm) : qf \in MD(qm).flags[active[qi][qm][qr]]
QFlagOracle(qi, qf) == QFlagOracleIn(qi, Def.root, qf)
\* AND operator: the active state of every region of the queried machine carries F (a submachine state carries it itself or through
\* its active configuration)
QCarries(qi, qm, qs, qf) == qf \in MD(qm).flags[qs] \/ (IsSub(qm, qs) /\ QFlagOracleIn(qi, qs, qf))
QFlagAndOracle(qi, qf) == \A qr \in 1..NReg(Def.root) : QCarries(qi, Def.root, active[qi][Def.root][qr], qf)
\* Known finding F15 (backmp11): with the AND operator every active state at every depth must carry the flag itself, so the answer
\* differs from the statement (and from back / back11) when a submachine is active; exactly that reading is excused, in that situation only.
QAndAllActive(qi, qf) == \A qm \in ActiveTree(qi, Def.root) : \A qr \in 1..NReg(qm) : qf \in MD(qm).flags[active[qi][qm][qr]]
QHasActiveSub(qi) == \E qr \in 1..NReg(Def.root) : IsSub(Def.root, active[qi][Def.root][qr])
P_C17 == Quiescent => \A qi \in Insts : running[qi][Def.root] =>
            \A qk \in 1..Len(Def.flags) :
               /\ FlagVec(qi, Def.root)[qk] = QFlagOracle(qi, Def.flags[qk])
               /\ LET qv == FlagVec(qi, Def.root)[Len(Def.flags) + qk] IN
                     \/ qv = QFlagAndOracle(qi, Def.flags[qk])
                     \/ IsM /\ QHasActiveSub(qi) /\ qv = QAndAllActive(qi, Def.flags[qk])

\* ---------------------------------------------------------------- C15: copies are independent
\* Known finding F6 (back, back11): a queued / deferred closure copied with the machine stays bound to the object it was
\* created on; draining the copy then drives the original.  The model reproduces this (marker "xbind"); only that pattern is excused.
QExcusedF6 == IsB /\ \E qi \in 1..QLen : obs[qi].k = "xbind"
P_C15 == (Quiescent /\ lastcall.op \in {"pe", "enq", "drain", "drain1", "start", "stop"} /\ ~QExcusedF6) =>
            \* no behaviour of another machine object is invoked
            /\ \A qi \in 1..QLen : IsCb(obs[qi]) => obs[qi].i = lastcall.i
            \* and nothing of another machine object changes
            /\ \A qj \in Insts \ {lastcall.i} :
                  /\ active[qj] = pre.all[1][qj] /\ mq[qj] = pre.all[2][qj] /\ dq[qj] = pre.all[3][qj]
                  /\ pool[qj] = pre.all[4][qj] /\ hist[qj] = pre.all[5][qj] /\ running[qj] = pre.all[6][qj]
\* reachability probe: the excused pattern (used to confirm that the finding still exists on the model)
P_NoF6 == ~QExcusedF6

\* ---------------------------------------------------------------- C16: serialization round trip
\* right after a load the new machine has the source's active ids at every level (also of inactive submachines), its history memory
\* and the data of every state / front-end that opts in; nothing else of the source changed
P_C16 == (Quiescent /\ lastcall.op = "saveload") =>
            LET qj == lastcall.i   qi == lastcall.p IN
            /\ active[qj] = active[qi] /\ hist[qj] = hist[qi]
            /\ \A qk \in LedgerKeys : SerKey(qk) => encnt[qj][qk] = encnt[qi][qk]
            /\ \A qm \in Machines : mq[qj][qm] = <<>> /\ dq[qj][qm] = <<>>
            /\ active[qi] = pre.all[1][qi] /\ hist[qi] = pre.all[5][qi]

\* ---------------------------------------------------------------- placeholders decided by conformance only (see DESIGN.md)
\* position of the first deferral of payload qp
QArrival(qi, qp) == CHOOSE qk \in 1..Len(defseq[qi]) : defseq[qi][qk].p = qp /\ \A qj \in 1..(qk-1) : defseq[qi][qj].p # qp
\* a deferred occurrence is never reported through no_transition while it is pending
P_C05a == Quiescent =>
   \A qi \in 1..QLen : (obs[qi].k = "nt") => ~(obs[qi].p \in defd[obs[qi].i] /\ \E qj \in 1..QLen : qj < qi /\ obs[qj].k = "deferred" /\ obs[qj].p = obs[qi].p
                                                        /\ ~\E qk \in (qj+1)..(qi-1) : obs[qk].k = "pei" /\ obs[qk].p = obs[qi].p)
\* deferred occurrences of one type, handled by one machine, are handled in their arrival order.
\* back / back11: arrival = the moment the occurrence was first offered and deferred (the re-sort of the deferred queue restores it);
\* backmp11: the event pool is queue and deferral store at once: arrival = position in the pool, i.e. the last time the occurrence
\* was put into it (an occurrence deferred again by a Defer action is re-appended)
P_C05b == Quiescent =>
   \A qi \in Insts : \A qa, qb \in 1..Len(hdl[qi]) :
         \* (machines configured event_queue_before_deferred_queue deliberately give queued events priority over pending deferred
         \*  ones, which lets a newly deferred occurrence overtake an older one inside a round: outside the statement's default order)
         (qa < qb /\ hdl[qi][qa].t = hdl[qi][qb].t /\ hdl[qi][qa].m = hdl[qi][qb].m /\ hdl[qi][qa].p # hdl[qi][qb].p
             /\ ~MD(hdl[qi][qa].m).qfirst) =>
             IF IsB THEN QArrival(qi, hdl[qi][qa].p) < QArrival(qi, hdl[qi][qb].p) ELSE hdl[qi][qa].a < hdl[qi][qb].a
P_C05 == P_C05a /\ P_C05b

\* ---------------------------------------------------------------- C08 / C09: what a (re-)entered submachine activates
\* documented restore function: named regions as the target says, the others by the history policy
QRestore(qi, qs, qet, qnamed) ==
   [qr \in 1..NReg(qs) |->
        IF \E qn \in 1..Len(qnamed) : RegOf(qs, qnamed[qn]) = qr
        THEN qnamed[CHOOSE qn \in 1..Len(qnamed) : RegOf(qs, qnamed[qn]) = qr]
        ELSE IF HistKind(qs) = "always" \/ (HistKind(qs) = "shallow" /\ qet \in HistEvents(qs)) THEN lastcfg[qi][qs][qr]
        ELSE MD(qs).init[qr]]
\* for every completed transition into a submachine: the entry behaviours that run right after the submachine's own entry, on the
\* submachine's level, are exactly those of the restored / named states, once each
QEntryOK(qo, qi) ==
   LET qj == QTakenPos(qo, qi)
       qrow == QRowOfTake(qo[qi])
       qs == qrow.tgt
       qdisps == { qx \in (qi+1)..qj : qo[qx].k = "disp" }      \* backmp11 drains the pool (completion events first) inside the submachine's entry
       qend == IF qdisps = {} THEN qj ELSE CHOOSE qx \in qdisps : \A qy \in qdisps : qx <= qy
       qwin == QOutsidePei(qo, qi+1, qend, <<>>)
       qens == SelectSeq(qwin, LAMBDA qx : qo[qx].k = "en" /\ qo[qx].m = qs /\ qo[qx].i = qo[qi].i)
       qgot == [qq \in 1..Len(qens) |-> qo[qens[qq]].id]
       \* the history policy sees the static type the row hands over: its trigger (possibly a base class of the occurrence's type)
       qwant == QRestore(qo[qi].i, qs, IF qrow.ev \in {"any", "anyu"} THEN "any" ELSE qrow.ev, qrow.named)
   IN (qj # 0 /\ ~qo[qi].r /\ qs \in Machines /\ IsSub(qo[qi].m, qs)) =>
         /\ Len(qgot) = NReg(qs)
         /\ {qgot[qq] : qq \in 1..Len(qgot)} = {qwant[qq] : qq \in 1..NReg(qs)}
         /\ (Len(qrow.named) # NReg(qs) \/ IsB) => qgot = qwant          \* region order (backmp11 with every region named: order of the target list)
\* the lastcfg ghost changes when the same call leaves the submachine again, so the formula is evaluated on calls that enter it once
QEntersOnce(qo, qs) == Cardinality({qx \in 1..Len(qo) : qo[qx].k = "ex" /\ qo[qx].id = qs}) = 0
P_C08 == Quiescent => \A qi \in 1..QLen :
            (obs[qi].k = "take" /\ obs[qi].id = "table" /\ QEntersOnce(obs, MD(obs[qi].m).table[obs[qi].p].tgt)) => QEntryOK(obs, qi)
\* C09: a row leaving an exit point is taken only while that exit point is the active state of its submachine; and a transition into
\* an exit point forwards the exit point's event to the root within the same call
P_C09 == Quiescent =>
            /\ P_C08
            /\ \A qi \in 1..QLen : (obs[qi].k = "xptake") => obs[qi].r
            /\ \A qi \in 1..QLen :
                  (obs[qi].k = "taken" /\ ~obs[qi].r /\ IsExitPt(obs[qi].m, obs[qi].id) /\ ~sawexc[obs[qi].i]) =>
                      \E qj \in 1..QLen : obs[qj].k = "submit" /\ obs[qj].id = "xp" /\ obs[qj].m = Def.root /\ obs[qj].e = MD(obs[qi].m).xpev[obs[qi].id]
P_C18 == Quiescent => \A qi \in 1..QLen : (IsCb(obs[qi]) /\ obs[qi].e \notin {"start", "stop", "none"}) => obs[qi].e \in Def.events
P_C19 == TRUE
====
