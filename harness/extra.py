"""extra.py -- auxiliary oracles for clauses no state-machine model can see (memory safety, uninitialised data).
The same spec-driven drivers and scripts are run under ASan+UBSan (and valgrind in the thorough tier); any report is a violation
of that clause.  Reported as auxiliary in the evidence; never counted as model checking."""
import os, re, subprocess, concurrent.futures as cf
import core, gen

SAN_FLAGS = ("-fsanitize=address,undefined", "-fno-omit-frame-pointer", "-g")

def sanitizer_phase(prop, pl, tier, v, seed, ev):
    viols = []
    machines = pl.get("san_machines", pl["machines"])
    cfgs_wanted = pl.get("san_configs_quick", ["back", "mp11"]) if tier == "quick" else gen.CONFIGS
    pairs = []
    for m in machines:
        d = core.load_def(m)
        for c in cfgs_wanted:
            if core.supported(d, c): pairs.append((m, c))
    bins = core.build_many(pairs, flags=SAN_FLAGS, tag=".san")
    nexec = 60 if tier == "quick" else 600
    ev.setdefault("aux", {})["sanitizer_runs"] = []
    def work(pair):
        m, c = pair
        d = core.load_def(m)
        prof = pl["profile"][0] if isinstance(pl["profile"], list) else pl["profile"]
        scripts = core.gen_scripts(d, seed * 31 + 5, nexec, **prof)
        lines = [l for ex in scripts for l in ex]
        tp = os.path.join(v.dir, "san_%s_%s.ndjson" % (m, c))
        sp = tp + ".script"; open(sp, "w").write("\n".join(lines) + "\n")
        env = dict(os.environ); env["ASAN_OPTIONS"] = "detect_leaks=1:halt_on_error=1:abort_on_error=0"; env["UBSAN_OPTIONS"] = "halt_on_error=1:print_stacktrace=1"
        r = subprocess.run([bins[(m, c)], sp, tp], capture_output=True, text=True, timeout=900, env=env)
        return m, c, r.returncode, r.stderr, scripts
    with cf.ThreadPoolExecutor(max_workers=core.NPROC) as ex:
        for m, c, rc, err, scripts in ex.map(work, pairs):
            bad = rc != 0 or re.search(r"AddressSanitizer|runtime error:|LeakSanitizer", err)
            ev["aux"]["sanitizer_runs"].append({"machine": m, "config": c, "executions": len(scripts), "clean": not bad})
            if bad:
                viols.append({"kind": "sanitizer", "property": prop, "machine": m, "config": c, "rc": rc,
                              "report": err[-3000:], "script": [l for ex in scripts[:40] for l in ex]})
    if tier == "thorough" and pl.get("valgrind"):
        plain = core.build_many(pairs)
        def vg(pair):
            m, c = pair
            d = core.load_def(m)
            prof = pl["profile"][0] if isinstance(pl["profile"], list) else pl["profile"]
            scripts = core.gen_scripts(d, seed * 37 + 11, 150, **prof)
            lines = [l for ex in scripts for l in ex]
            tp = os.path.join(v.dir, "vg_%s_%s.ndjson" % (m, c)); sp = tp + ".script"; open(sp, "w").write("\n".join(lines) + "\n")
            r = subprocess.run(["valgrind", "--error-exitcode=9", "--quiet", "--track-origins=no", plain[(m, c)], sp, tp], capture_output=True, text=True, timeout=3000)
            return m, c, r.returncode, r.stderr, scripts
        ev["aux"]["valgrind_runs"] = []
        with cf.ThreadPoolExecutor(max_workers=core.NPROC) as ex:
            for m, c, rc, err, scripts in ex.map(vg, pairs):
                ev["aux"]["valgrind_runs"].append({"machine": m, "config": c, "clean": rc == 0})
                if rc != 0:
                    viols.append({"kind": "valgrind", "property": prop, "machine": m, "config": c, "rc": rc, "report": err[-3000:],
                                  "script": [l for ex in scripts[:40] for l in ex]})
    return viols

def puml_tokenizer_phase(prop, pl, tier, v, seed, ev):
    """C14: every line of the documented PlantUML transition grammar (enumerated by TLC from spec/Puml.tla) is split by
    detail::parse_row / count_actions / parse_action / parse_stt / parse_inits into exactly the intended fields."""
    import shutil, tlc
    viols = []
    wd = os.path.join(v.dir, "puml"); os.makedirs(wd, exist_ok=True)
    cfgname = "Puml_quick.cfg" if tier == "quick" else "Puml_thorough.cfg"
    shutil.copy(os.path.join(core.VERIF, "spec", "Puml.tla"), wd); shutil.copy(os.path.join(core.VERIF, "puml", cfgname), wd)
    r = subprocess.run(["timeout", "3000", "java", "-Xmx20g", "-cp", tlc.JAR + ":" + tlc.CM, "tlc2.TLC", "-workers", "1", "-config", cfgname, "Puml.tla"],
                       cwd=wd, capture_output=True, text=True)
    st = tlc.parse_stats(r.stdout)
    cut = r.returncode == 124 and '"L#' in r.stdout       # time limit: the lines enumerated so far are checked, the enumeration is not complete
    if (r.returncode != 0 and not cut) or "distinct" not in st:
        raise core.ToolError("TLC failed on Puml.tla:\n" + r.stdout[-2000:])
    recs = sorted(set(l[1:-1] for l in r.stdout.splitlines() if l.startswith('"L#')))
    open(os.path.join(wd, "recs.txt"), "w").write("\n".join(recs) + "\n")
    exe = os.path.join(wd, "puml_tok")
    env = dict(os.environ); env["CCACHE_DIR"] = os.path.join(core.VERIF, ".ccache")
    c = subprocess.run(["ccache", "g++", "-std=c++20", "-O1", "-w", "-I" + core.REPO_INC, "-o", exe, os.path.join(core.VERIF, "puml", "puml_tok.cpp")],
                       capture_output=True, text=True, env=env)
    if c.returncode != 0:
        raise core.ToolError("puml_tok.cpp does not compile:\n" + c.stderr[-2000:])
    t = subprocess.run([exe, os.path.join(wd, "recs.txt")], capture_output=True, text=True, timeout=1800)
    ev.setdefault("aux", {})["puml_tokenizer"] = {"tlc_distinct_states": st["distinct"], "lines": len(recs), "enumeration_complete": not cut, "result": t.stdout.strip().splitlines()[-1] if t.stdout.strip() else ""}
    ev["states"] += st["distinct"]; ev["transitions"] += st["generated"]
    ev["samples"].append({"puml_line": recs[len(recs) // 2]})
    if t.returncode == 1:
        viols.append({"kind": "tokenizer", "property": prop, "machine": "puml grammar", "config": cfgname, "report": t.stdout[-3000:], "script": []})
    elif t.returncode != 0:
        raise core.ToolError("puml_tok failed: rc=%d %s" % (t.returncode, t.stderr[-500:]))
    return viols
