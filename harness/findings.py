"""findings.py -- known findings: genuine defects of boostorg/msm that are recorded rather than repaired.
The file /verif/known_findings.json is read-only at run time.  An entry suppresses exactly the violations that match
its signature; anything else that breaks the same property is still reported."""
import os, json, re
VERIF = os.path.dirname(os.path.dirname(os.path.abspath(__file__)))

def load():
    p = os.path.join(VERIF, "known_findings.json")
    if not os.path.exists(p): return []
    return [f for f in json.load(open(p))["findings"] if f.get("status") == "known"]

def match_model(prop, machine, cfg, invariant, cex):
    for f in load():
        sig = f.get("model_signature")
        if not sig or prop not in f["properties"]: continue
        if cfg not in sig.get("configs", [cfg]): continue
        if invariant not in sig.get("invariants", [invariant]): continue
        text = cex.get("path", "") + " " + cex.get("obs_tail", "") + " " + cex.get("lastcall", "")
        if all(re.search(rx, text) for rx in sig.get("path_regex", [])):
            return {"id": f["id"], "what": f["what"], "where": "model %s/%s %s" % (machine, cfg, invariant)}
    return None

def match_trace(prop, machine, cfg, rec):
    for f in load():
        sig = f.get("trace_signature")
        if not sig or prop not in f["properties"]: continue
        if cfg not in sig.get("configs", [cfg]): continue
        text = "\n".join(rec.get("script", [])) + "\n" + "\n".join(rec.get("trace_excerpt", []))
        if all(re.search(rx, text) for rx in sig.get("regex", [])):
            return {"id": f["id"], "what": f["what"], "where": "trace %s/%s" % (machine, cfg)}
    return None

def probes(prop):
    return [f for f in load() if prop in f["properties"] and f.get("probe")]

def run_probe(f, core, bins_builder, workdir):
    """run the finding's probe script against the real code; returns the list of configurations on which it still reproduces"""
    import os, re
    pr = f["probe"]; hit = []
    d = core.load_def(pr["machine"])
    cfgs = [c for c in pr["configs"] if core.supported(d, c)]
    bins = bins_builder([(pr["machine"], c) for c in cfgs])
    for c in cfgs:
        tp = os.path.join(workdir, "probe_%s_%s.ndjson" % (f["id"], c))
        rc, err = core.run_driver(bins[(pr["machine"], c)], pr["script"], tp)
        if rc != 0: continue
        if re.search(pr["regex"], open(tp).read()): hit.append(c)
    return hit
