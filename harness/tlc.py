#!/usr/bin/env python3
"""tlc.py -- translate the PlusCal spec, write MC modules/configs, run TLC (mc or trace mode)."""
import os, re, subprocess, sys, json, shutil, time

VERIF = os.path.dirname(os.path.dirname(os.path.abspath(__file__)))
SPEC = os.path.join(VERIF, "spec")
JAR = "/opt/veriftools/tla/tla2tools.jar"
CM = "/opt/veriftools/tla/CommunityModules-deps.jar"

def translate(dst):
    """copy spec/*.tla to dst and run pcal on MSM.tla; prepend TLCSet(1,0) to Init."""
    os.makedirs(dst, exist_ok=True)
    for f in os.listdir(SPEC):
        if f.endswith(".tla"):
            shutil.copy(os.path.join(SPEC, f), os.path.join(dst, f))
    r = subprocess.run(["pcal", "-nocfg", "MSM.tla"], cwd=dst, capture_output=True, text=True)
    if "Translation completed" not in r.stdout:
        raise RuntimeError("pcal failed:\n" + r.stdout + r.stderr)
    p = os.path.join(dst, "MSM.tla")
    s = open(p).read()
    s = s.replace("Init == (* Global variables *)\n        /\\ ", "Init == (* Global variables *)\n        /\\ TLCSet(1, 0) /\\ TLCSet(2, {}) /\\ TLCSet(3, 0)\n        /\\ ", 1)
    assert "TLCSet(1, 0)" in s
    open(p, "w").write(s)
    m = re.search(r"^vars == <<(.*?)>>", s, re.S | re.M)
    allvars = [v.strip() for v in m.group(1).replace("\n", " ").split(",")]
    return allvars

CFGS = {
    "back":     '[fam |-> "back", b11 |-> FALSE, fct |-> FALSE, fpa |-> FALSE]',
    "back_circ": '[fam |-> "back", b11 |-> FALSE, fct |-> FALSE, fpa |-> FALSE]',
    "back_fct": '[fam |-> "back", b11 |-> FALSE, fct |-> TRUE, fpa |-> FALSE]',
    "back11":   '[fam |-> "back", b11 |-> TRUE, fct |-> FALSE, fpa |-> FALSE]',
    "mp11":     '[fam |-> "mp11", b11 |-> FALSE, fct |-> FALSE, fpa |-> FALSE]',
    "mp11_fct": '[fam |-> "mp11", b11 |-> FALSE, fct |-> TRUE, fpa |-> FALSE]',
    "mp11_fpa": '[fam |-> "mp11", b11 |-> FALSE, fct |-> FALSE, fpa |-> TRUE]',
}

def write_mc(dst, defname, cfg, mode, allvars, maxcalls=3, budget=0, ninst=1, apis=("start", "pe"),
             invariants=(), extra_defs="", emit=False, name=None, dirops=("throw", "pe", "enq"), direvs=None, constraint=None, trace_invs=(), percall=True):
    name = name or ("MC_%s_%s_%s" % (defname, cfg, mode))
    view = [v for v in allvars if v != "path"]
    mod = ["---- MODULE %s ----" % name, "EXTENDS MSM, Def_%s, Props" % defname if os.path.exists(os.path.join(dst, "Props.tla")) else "EXTENDS MSM, Def_%s" % defname,
           "MCfg == %s" % CFGS[cfg],
           "MApis == {%s}" % ", ".join('"%s"' % a for a in apis),
           "MDirOps == {%s}" % ", ".join('"%s"' % a for a in dirops),
           "MDirEvs == %s" % ("Def_%s.events" % defname if direvs is None else "{%s}" % ", ".join('"%s"' % a for a in direvs)),
           "PInv == %s" % (" /\\ ".join(trace_invs) if trace_invs else "TRUE"),
           "Track == TLCSet(1, IF l > TLCGet(1) THEN l ELSE TLCGet(1)) /\\ TLCSet(3, IF TLCGet(3) = 0 /\\ ~PInv THEN l ELSE TLCGet(3))",
           "Accepted == PrintT(<<\"maxl\", TLCGet(1), NL, TLCGet(3)>>) /\\ TLCGet(1) = NL + 1",
           "View == <<%s>>" % ", ".join(view),
           extra_defs, "===="]
    open(os.path.join(dst, name + ".tla"), "w").write("\n".join(mod) + "\n")
    c = ["SPECIFICATION Spec", 'CONSTANT Mode = "%s"' % mode, "CONSTANT Cfg <- MCfg", "CONSTANT Def <- Def_%s" % defname,
         "CONSTANT MaxCalls = %d" % maxcalls, "CONSTANT Budget = %d" % budget, "CONSTANT BudgetPerCall = %s" % ("TRUE" if percall else "FALSE"), "CONSTANT NInst = %d" % ninst, "CONSTANT Apis <- MApis",
         "CONSTANT DirOps <- MDirOps", "CONSTANT DirEvs <- MDirEvs",
         "CONSTANT defaultInitValue = defaultInitValue", "CHECK_DEADLOCK FALSE"]
    if constraint: c.append("CONSTRAINT " + constraint)
    if mode == "trace":
        c += ["CONSTRAINT Track", "POSTCONDITION Accepted"]
    else:
        c += ["VIEW View"]
        if emit: c += ["CONSTRAINT Emit"]
    for inv in invariants: c.append("INVARIANT " + inv)
    open(os.path.join(dst, name + ".cfg"), "w").write("\n".join(c) + "\n")
    return name

def run_tlc(dst, name, trace=None, workers=1, timeout=600, heap="4g", extra=()):
    env = dict(os.environ)
    if trace: env["TRACE"] = trace
    meta = os.path.join(dst, "meta_" + name + "_" + str(os.getpid()) + "_" + str(int(time.time() * 1000) % 100000))
    cmd = ["timeout", str(timeout), "java", "-Xmx" + heap, "-XX:+UseParallelGC", "-cp", JAR + ":" + CM, "tlc2.TLC",
           "-workers", str(workers), "-metadir", meta, "-config", name + ".cfg"] + list(extra) + [name + ".tla"]
    t0 = time.time()
    r = subprocess.run(cmd, cwd=dst, capture_output=True, text=True, env=env)
    shutil.rmtree(meta, ignore_errors=True)
    return r.returncode, r.stdout + r.stderr, time.time() - t0

def parse_stats(out):
    st = {}
    m = re.search(r"(\d+) states generated, (\d+) distinct states found", out)
    if m: st["generated"] = int(m.group(1)); st["distinct"] = int(m.group(2))
    else:   # run cut short by the time limit: take the last progress report
        pm = re.findall(r"Progress\(\d+\) at [^:]*:\d+:\d+: ([\d,]+) states generated[^,]*, ([\d,]+) distinct states found", out)
        if pm: st["generated"] = int(pm[-1][0].replace(",", "")); st["distinct"] = int(pm[-1][1].replace(",", "")); st["partial"] = True
    m = re.search(r'<<"maxl", (\d+), (\d+), (\d+)>>', out)
    if m: st["maxl"] = int(m.group(1)); st["nl"] = int(m.group(2)); st["pviol"] = int(m.group(3))
    m = re.search(r"Invariant (\w+) is violated", out)
    if m: st["violated"] = m.group(1)
    return st

if __name__ == "__main__":
    print(translate(sys.argv[1]))

def extract_var(out, var):
    """text of variable `var` in the last state of a TLC error trace"""
    key = "/\\ %s = " % var
    i = out.rfind(key)
    if i < 0: return ""
    j = out.find("\n/\\ ", i + 1)
    k = out.find("\n\n", i + 1)
    ends = [x for x in (j, k) if x > 0]
    return out[i + len(key): min(ends) if ends else len(out)].strip()

def extract_path(out):
    return {"path": extract_var(out, "path")[:6000], "obs_tail": extract_var(out, "obs")[-3000:], "lastcall": extract_var(out, "lastcall")}
