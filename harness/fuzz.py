#!/usr/bin/env python3
"""fuzz.py -- development loop: random scripts -> drivers -> TLC trace validation, for one definition, all configs."""
import os, sys, argparse, json, time, concurrent.futures as cf
sys.path.insert(0, os.path.dirname(os.path.abspath(__file__)))
import core, gen

def main():
    ap = argparse.ArgumentParser()
    ap.add_argument("name"); ap.add_argument("--cfgs", default="all"); ap.add_argument("--n", type=int, default=200)
    ap.add_argument("--files", type=int, default=4)
    ap.add_argument("--seed", type=int, default=1); ap.add_argument("--throws", type=float, default=0.15)
    ap.add_argument("--subs", type=float, default=0.25); ap.add_argument("--enq", type=float, default=0.1)
    ap.add_argument("--drain", type=float, default=0.1); ap.add_argument("--restart", type=float, default=0.05)
    ap.add_argument("--startsubs", type=float, default=0.1); ap.add_argument("--copy", type=float, default=0.0); ap.add_argument("--ninst", type=int, default=1); ap.add_argument("--destroy", type=float, default=0.0); ap.add_argument("--saveload", type=float, default=0.0); ap.add_argument("--fe", default="functor"); ap.add_argument("--moves", type=float, default=0.0)
    ap.add_argument("--maxcalls", type=int, default=7); ap.add_argument("--show", type=int, default=12); ap.add_argument("--invs", default="")
    a = ap.parse_args()
    d = core.load_def(a.name)
    cfgs = [c for c in gen.CONFIGS if core.supported(d, c)] if a.cfgs == "all" else a.cfgs.split(",")
    t0 = time.time()
    bins = core.build_many([(a.name, c) for c in cfgs], fe=a.fe)
    print("built %d drivers in %.1fs" % (len(bins), time.time() - t0))
    wd = os.path.join(core.VERIF, "work", "fuzz_%s_%d" % (a.name, os.getpid()))
    v = core.Validator(wd)
    for c in cfgs: v.trace_module(d, c, a.ninst)
    jobs = []
    for c in cfgs:
        for f in range(a.files):
            scripts = core.gen_scripts(d, a.seed * 1000 + f, a.n, throws=a.throws, subs=a.subs, enq=a.enq, drain=a.drain,
                                       restart=a.restart, maxcalls=a.maxcalls, startsubs=a.startsubs, copy=a.copy, ninst=a.ninst, destroy=a.destroy, saveload=a.saveload, moves=a.moves)
            jobs.append((c, f, scripts))
    def work(job):
        c, f, scripts = job
        tp = os.path.join(wd, "t_%s_%d.ndjson" % (c, f))
        div, st = core.first_divergence(v, d, c, bins[(a.name, c)], scripts, tp, ninst=a.ninst, invs=[x for x in a.invs.split(",") if x])
        return c, f, div, st
    bad = 0
    with cf.ThreadPoolExecutor(max_workers=core.NPROC) as ex:
        for c, f, div, st in ex.map(work, jobs):
            if div is None:
                print("%-9s file %d: accepted %d lines, %d states, %.1fs" % (c, f, st["nl"], st.get("generated", 0), st["secs"]))
            else:
                bad += 1
                print("%-9s file %d: REJECTED kind=%s propline=%s exec %d (repeats=%s) last matched line %d of %d" % (c, f, div["kind"], div.get("prop_line"), div["exec_index"], div["repeats"], div["last_matched"], div["nl"]))
                print("  script:"); [print("    " + s) for s in div["script"]]
                lm = div["last_matched"]
                lo = max(0, lm - a.show)
                for k in range(lo, min(len(div["trace"]), lm + 3)):
                    print("  %s%4d %s" % (">>" if k == lm else "  ", k + 1, div["trace"][k][:330]))
    print("done in %.1fs, %d rejected" % (time.time() - t0, bad))
    return 1 if bad else 0

if __name__ == "__main__":
    sys.exit(main())
