"""plan.py -- what each property's check explores: machines, configurations, script profile, model-checking bounds.

profile keys (ScriptGen): throws, subs, enq, drain, restart, startsubs, maxcalls
mc keys: maxcalls, budget, apis, dirops, direvs (None = all events), ninst
"""
PLAIN = dict(throws=0.0, subs=0.0, enq=0.0, drain=0.0, restart=0.0, startsubs=0.0, maxcalls=8)
RESTART = dict(throws=0.0, subs=0.0, enq=0.05, drain=0.05, restart=0.2, startsubs=0.0, maxcalls=9)
QUEUE = dict(throws=0.0, subs=0.6, enq=0.15, drain=0.15, restart=0.03, startsubs=0.0, maxcalls=7)
DEFER = dict(throws=0.0, subs=0.15, enq=0.08, drain=0.08, restart=0.0, startsubs=0.0, maxcalls=12, evbias=0.55)
THROW = dict(throws=0.5, subs=0.15, enq=0.05, drain=0.05, restart=0.0, startsubs=0.0, maxcalls=7)
MIXED = dict(throws=0.15, subs=0.25, enq=0.1, drain=0.1, restart=0.05, startsubs=0.0, maxcalls=7)

ENQDRAIN = dict(throws=0.0, subs=0.1, enq=0.45, drain=0.3, restart=0.0, startsubs=0.0, maxcalls=10)   # enqueue_event + single-step drains

MC_PLAIN = dict(maxcalls=4, budget=0, apis=("start", "pe"), dirops=(), direvs=())
MC_PLAIN5 = dict(maxcalls=5, budget=0, apis=("start", "pe"), dirops=(), direvs=())
MC_RESTART = dict(maxcalls=5, budget=0, apis=("start", "pe", "stop"), dirops=(), direvs=())
MC_QUEUE = dict(maxcalls=3, budget=1, percall=False, apis=("start", "pe", "enq", "drain1"), dirops=("pe",), direvs=("E1", "E2"))
MC_THROW = dict(maxcalls=3, budget=1, apis=("start", "pe"), dirops=("throw",), direvs=())

ALL = ["back", "back_fct", "back11", "mp11", "mp11_fct", "mp11_fpa"]

EVENTS = dict(throws=0.1, subs=0.4, enq=0.2, drain=0.1, restart=0.1, startsubs=0.0, maxcalls=8, copy=0.15, ninst=3, destroy=0.1)

PLAN = {
 "C01": dict(suite=True, machines=["flat", "ortho", "hier2", "hier3", "kleene"], profile=PLAIN, mc=MC_PLAIN, invariants=["P_C01"],
             title="enabled-transition selection"),
 "C02": dict(suite=True, machines=["flat", "hier2", "hier3", "pseudo", "histA"], profile=PLAIN, mc=MC_PLAIN, invariants=["P_C02"],
             title="transition execution order"),
 "C03": dict(machines=["hier3", "histN", "histS", "pseudo", "compl", "ortho"], profile=RESTART, mc=MC_RESTART, invariants=["P_C03"],
             title="active configuration integrity"),
 "C04": dict(configs=ALL + ["back_circ"], machines=["hier2", "compl", "defer", "flat", "deferq"], profile=[QUEUE, ENQDRAIN, dict(QUEUE, throws=0.35, subs=0.35)], mc=MC_QUEUE, invariants=["P_C04"],
             title="run to completion / FIFO / exactly once"),
 "C05": dict(machines=["defer", "defer2", "deferq", "defer3", "defer4"], profile=DEFER, mc=dict(MC_QUEUE, maxcalls=4, budget=0, dirops=(), direvs=()), invariants=["P_C05"],
             title="deferred events"),
 "C06": dict(suite=True, machines=["flat", "ortho", "hier2", "hier3"], profile=PLAIN, mc=MC_PLAIN, invariants=["P_C06"],
             title="orthogonal regions, result, no_transition"),
 "C07": dict(suite=True, machines=["hier2", "hier3"], profile=PLAIN, mc=MC_PLAIN5, invariants=["P_C01", "P_C02", "P_C07"],
             title="hierarchy"),
 "C08": dict(suite=True, machines=["histN", "histA", "histS"], profile=PLAIN, mc=MC_PLAIN5, invariants=["P_C08"],
             title="history policies"),
 "C09": dict(suite=True, machines=["pseudo", "histS", "complx"], profile=PLAIN, mc=MC_PLAIN5, invariants=["P_C09"],
             title="explicit entry, fork, entry and exit points"),
 "C10": dict(machines=["compl", "complh", "complx", "blocksub"], profile=dict(DEFER, subs=0.3), mc=dict(MC_QUEUE, budget=0, maxcalls=4, dirops=(), direvs=()), invariants=["P_C10"],
             title="completion transitions"),
 "C11": dict(machines=["block", "blocksub"], profile=dict(QUEUE, subs=0.3), mc=dict(MC_PLAIN, maxcalls=4), invariants=["P_C11"],
             title="terminate / interrupt"),
 "C12": dict(machines=["hier2", "policy1", "policy2", "policy3", "compl"], profile=THROW, mc=MC_THROW, invariants=["P_C12"],
             title="exceptions"),
 "C13": dict(configs=ALL + ["back_circ"], machines=["flat", "ortho", "hier2", "hier3", "compl", "block", "pseudo"], profile=dict(MIXED, throws=0.1), nexec=(120, 900), mc=MC_PLAIN, invariants=[],
             title="back-end / policy / strategy equivalence"),
 "C14": dict(machines=["fe_flat", "fe_hier2", "fe_guards"], profile=dict(PLAIN, subs=0.1), mc=MC_PLAIN, invariants=["P_C01", "P_C02"],
             frontends={"functor": ALL, "basic": ALL, "puml": ["back", "back11", "mp11", "mp11_fct"]},
             title="front-end equivalence and the PlantUML parser"),
 "C15": dict(machines=["defer", "pseudo", "histA", "histS", "compl"], profile=dict(MIXED, throws=0.05, copy=0.25, moves=0.3, ninst=3, fork=0.4), ninst=3, nexec=(240, 3000),
             mc=dict(maxcalls=3, budget=0, apis=("start", "pe", "enq", "drain", "copy", "assign"), dirops=(), direvs=(), ninst=2), invariants=["P_C15"],
             title="copies and moves"),
 "C20": dict(machines=["events"], profile=EVENTS, ninst=3, san_machines=["events"], valgrind=True,
             mc=dict(maxcalls=3, budget=1, percall=False, apis=("start", "pe", "enq", "drain1"), dirops=("pe",), direvs=("E2", "E6")), invariants=["P_C04"], trace_invariants=[],
             title="stored events"),
 "C16": dict(machines=["copyser", "histA", "histS"], configs=["back", "back_fct", "back11"], ninst=3,
             profile=dict(PLAIN, subs=0.1, restart=0.03, saveload=0.25, copy=0.05, ninst=3, maxcalls=9, fork=0.4),
             mc=dict(maxcalls=4, budget=0, apis=("start", "pe", "saveload"), dirops=(), direvs=(), ninst=2), invariants=["P_C16", "P_C03"],
             trace_invariants=["P_C16"], title="serialization round trip"),
 "C17": dict(suite=True, machines=["ortho", "hier3", "block"], profile=dict(PLAIN, restart=0.05), mc=MC_PLAIN, invariants=["P_C17"],
             title="flags"),
 "C18": dict(machines=["kleene"], profile=dict(PLAIN, subs=0.2, enq=0.1, drain=0.1), mc=MC_PLAIN5, invariants=["P_C01", "P_C18"],
             title="event matching and payload"),
 "C19": dict(suite=True, machines=["policy0", "policy1", "policy2", "policy3"], profile=dict(PLAIN, subs=0.1), mc=MC_PLAIN, invariants=["P_C19"],
             title="active-state-switch policy"),
}

import extra
EXTRA = {"C20": extra.sanitizer_phase, "C14": extra.puml_tokenizer_phase,
         "C12": lambda prop, pl, tier, v, seed, ev: extra.sanitizer_phase(prop, dict(pl, san_machines=["compl", "policy2"], valgrind=True), tier, v, seed, ev)}


# random machine definitions (gen/randdef.py, name rand<seed>) added to the conformance phase: a few fixed seeds in the quick tier
# (their drivers stay in the ccache), more in the thorough tier
RAND = {
 "C01": ((7, 12, "x9"), (18, 30, 33, 34, 35, 36, "x2", "x24", "x31")),
 "C02": ((9, 46), (23, 28, 37, 38, 40, 49, "x7", "x10")),
 "C03": ((3, 18), (7, 9, 12, 27, 41, 42, "x15", "x32")),
 "C05": (("x6", "x19"), ("x1", "x8", "x11", "x21")),
 "C06": ((27, 49), (30, 3, 12, 43, 44, 45, "x29", "x40")),
 "C07": ((7, 28, "x34"), (9, 18, 46, 47, 48, 50, "x20")),
 "C08": (("x73",), (9, 46, 49, "x45")),
 "C13": ((3, 8, 23, "x12"), (11, 12, 27, 46, 49, 51, "x5", "x27")),
 "C18": (("x12", "x36"), ("x5", "x20", "x27", "x38", "x39")),
}
def rand_seeds(prop, tier):
    q, t = RAND.get(prop, ((), ()))
    return [str(k) for k in (list(q) if tier == "quick" else list(q) + list(t))]
