#!/usr/bin/env python3
"""core.py -- build drivers, generate scripts, run drivers, validate traces with TLC, locate divergences."""
import os, sys, json, random, subprocess, shutil, time, hashlib, concurrent.futures as cf
HERE = os.path.dirname(os.path.abspath(__file__))
VERIF = os.path.dirname(HERE)
sys.path.insert(0, HERE); sys.path.insert(0, os.path.join(VERIF, "gen"))
import gen, tlc

REPO_INC = os.environ.get("VERIF_REPO_INCLUDE", "/repo/include")
BUILD = os.path.join(VERIF, "build")
CORPUS = os.path.join(VERIF, "corpus")
NPROC = int(os.environ.get("VERIF_JOBS", str(os.cpu_count() or 4)))

class ToolError(Exception):
    pass

def load_def(name):
    if name.startswith("randx") and name[5:].isdigit():
        import randdef
        return gen.Def(randdef.make(int(name[5:]), ext=True))
    if name.startswith("rand") and name[4:].isdigit():      # definitions drawn at random from the seed in the name (gen/randdef.py)
        import randdef
        return gen.Def(randdef.make(int(name[4:])))
    return gen.load(os.path.join(CORPUS, name + ".json"))

def supported(d, cfg):
    """configurations a definition can be instantiated with (documented library limitations)."""
    if cfg in gen.EXTRA_CONFIGS: return "back" in d.configs
    if cfg not in d.configs: return False
    has_smtab = any(m["smtab"] for m in d.machines.values())
    if cfg.startswith("back11") and has_smtab: return False     # back11 does not compile sm-internal tables with const events
    has_xp = any(st["kind"] == "exitpt" for m in d.machines.values() for st in m["states"].values())
    if cfg.startswith("back11") and has_xp: return False        # back11 does not compile exit points (the forwarder passes a const event)
    if cfg.startswith("back11"):
        # back11 does not compile a chain (two or more rows for one source and event) that contains an explicit-entry / entry-point row
        for m in d.machines.values():
            groups = {}
            for r in m["table"]: groups.setdefault((r["src"], r["ev"]), []).append(r)
            if any(len(g) > 1 and any(r["ek"] != "plain" for r in g) for g in groups.values()): return False
        # ... nor an entry point whose event has a chain in the entered submachine (the second half of the compound transition is
        # dispatched with a const event)
        for m in d.machines.values():
            for r in m["table"]:
                if r["ek"] != "entrypt": continue
                sub = d.machines[r["tgt"]]
                cnt = {}
                for x in list(sub["table"]) + [y for st in sub["states"].values() for y in st["itab"]]:
                    if x["ev"] == r["ev"]: cnt[x["src"]] = cnt.get(x["src"], 0) + 1
                if any(v > 1 for v in cnt.values()): return False
    return True

# ---------------------------------------------------------------- building
def build_one(name, cfg, flags=(), tag="", fe="functor"):
    d = load_def(name)
    os.makedirs(BUILD, exist_ok=True)
    base = os.path.join(BUILD, "%s.%s%s%s" % (name, cfg, "" if fe == "functor" else "." + fe, tag))
    src = gen.emit_cpp(d, cfg, fe=fe)
    cpp = base + ".cpp"
    if not os.path.exists(cpp) or open(cpp).read() != src:
        open(cpp, "w").write(src)
    std = "-std=c++20" if (cfg.startswith("mp11") or fe == "puml") else "-std=c++17"
    env = dict(os.environ); env["CCACHE_DIR"] = os.path.join(VERIF, ".ccache"); env.setdefault("CCACHE_MAXSIZE", "2G")
    cmd = ["ccache", "g++", std, "-O0", "-DNDEBUG", "-w", "-I" + REPO_INC, "-I" + os.path.join(VERIF, "gen", "rt")] + list(flags) + ["-o", base, cpp]
    t0 = time.time()
    obj = base + ".o"
    r = subprocess.run(cmd[:-3] + ["-c", "-o", obj, cpp], capture_output=True, text=True, env=env)
    if r.returncode != 0:
        raise ToolError("compile failed for %s.%s:\n%s" % (name, cfg, r.stderr[-4000:]))
    libs = ["-lboost_serialization"] if d.serial and not cfg.startswith("mp11") else []
    r = subprocess.run(["g++", "-o", base, obj] + [f for f in flags if f.startswith("-fsanitize")] + libs, capture_output=True, text=True)
    if r.returncode != 0:
        raise ToolError("link failed for %s.%s:\n%s" % (name, cfg, r.stderr[-2000:]))
    return base, time.time() - t0

def build_many(pairs, flags=(), tag="", fe="functor"):
    out = {}
    with cf.ThreadPoolExecutor(max_workers=NPROC) as ex:
        futs = {ex.submit(build_one, n, c, flags, tag, fe): (n, c) for n, c in pairs}
        for f in cf.as_completed(futs):
            out[futs[f]] = f.result()[0]
    return out

# ---------------------------------------------------------------- scripts
class ScriptGen:
    """seeded random walks over the API of a definition"""
    def __init__(self, d, seed, throws=0.15, subs=0.25, enq=0.1, drain=0.1, restart=0.05, maxcalls=7, maxplan=12, startsubs=0.1, copy=0.0, ninst=1, evbias=0.0, destroy=0.0, saveload=0.0, moves=0.0, fork=0.0):
        self.fork = fork; self.moves = moves; self.copy = copy; self.ninst = ninst; self.evbias = evbias; self.destroy = destroy; self.saveload = saveload
        self.hot = sorted(set(e for m in d.machines.values() for st in m["states"].values() for e in st["defers"] if e in d.events))
        self.d = d; self.rnd = random.Random(seed); self.throws = throws; self.subs = subs; self.enq = enq
        self.drain = drain; self.restart = restart; self.maxcalls = maxcalls; self.maxplan = maxplan; self.startsubs = startsubs
        self.p = 0
        self.ng = max([int(g[1:]) for g in d.guards] + [0])
        self.sticky = {}
    def newp(self):
        self.p += 1; return self.p
    def gv(self):
        if self.ng == 0: return "-"
        s = []
        for k in range(1, self.ng + 1):
            g = "g%d" % k
            if g in self.d.sticky: s.append(self.sticky[g])
            else: s.append(self.rnd.choice("01"))
        return "".join(s)
    def directive(self, n, allow_throw=True):
        r = self.rnd.random()
        if allow_throw and r < self.throws / max(self.throws + self.subs, 1e-9):
            return "%d:throw" % n
        op = "enq" if self.rnd.random() < 0.3 else "pe"
        return "%d:%s:%s:%s:%d" % (n, op, self.rnd.choice(["self", "root"]), self.rnd.choice(self.d.evnames), self.newp())
    def plan(self, allow_throw=True, prob=None):
        prob = (self.throws + self.subs) if prob is None else prob
        if self.rnd.random() >= prob: return "-"
        if allow_throw and self.throws > 0 and self.subs > 0 and self.rnd.random() < 0.15:
            # an event stored early in the step, a throw later in the same step, and an event submitted from exception_caught:
            # the stored one must still be dispatched first (C04), and the step must end normally (C12)
            n = self.rnd.randint(2, 6); k = self.rnd.randint(1, n - 1)
            return ",".join([self.directive(k, False), "%d:throw" % n, self.directive(n + 1, False)])
        ords = {self.rnd.randint(1, self.maxplan)}
        if self.rnd.random() < 0.25: ords.add(self.rnd.randint(1, self.maxplan))
        # payloads are issued in execution (ordinal) order, so that numeric order = submission order
        ds = []
        for n in sorted(ords):
            d = self.directive(n, allow_throw); ds.append(d)
            # the behaviour that follows a throw is exception_caught: let it submit an event now and then (C04: "from exception_caught")
            if d.endswith(":throw") and (n + 1) not in ords and self.rnd.random() < 0.4:
                ds.append(self.directive(n + 1, False))
        return ",".join(ds)
    def execution(self):
        self.sticky = {g: self.rnd.choice("01") for g in self.d.sticky}
        L = ["reset", "start 0 %s %s" % (self.gv(), self.plan(False, self.startsubs))]
        if self.fork and self.ninst > 1 and self.rnd.random() < self.fork:
            # fork: a history on one object, then a copy (or a save/load) of it, then the same kind of continuation on the copy and on the
            # original - what the copy remembers (history, queues, state data) only shows when the copy is driven further
            for _ in range(self.rnd.randint(2, self.maxcalls)):
                L.append("pe 0 %s %d %s %s" % (self.rnd.choice(self.d.evnames), self.newp(), self.gv(), self.plan()))
            if self.saveload and self.rnd.random() < 0.5: L.append("saveload 0 1 %s" % self.rnd.choice(["text", "binary"]))
            else: L.append("%s 0 1" % self.rnd.choice(["copy", "assign"]))
            for _ in range(self.rnd.randint(1, 4)):
                L.append("pe %d %s %d %s %s" % (self.rnd.choice([1, 1, 0]), self.rnd.choice(self.d.evnames), self.newp(), self.gv(), self.plan()))
            return L
        running = {0: True}          # live instances -> started?
        burnt = set()                # slots of moved-from objects
        sources = set()              # instances that were copied from (never destroyed: back closures may refer to them)
        for _ in range(self.rnd.randint(1, self.maxcalls)):
            i = self.rnd.choice(sorted(running))
            r = self.rnd.random()
            if self.destroy and len(running) > 1 and i not in sources and self.rnd.random() < self.destroy:
                L.append("destroy %d" % i); del running[i]; continue
            if not running[i]:
                L.append("start %d %s %s" % (i, self.gv(), self.plan(False, self.startsubs))); running[i] = True; continue
            if self.saveload and self.ninst > len(running) and self.rnd.random() < self.saveload:
                j = min(k for k in range(self.ninst) if k not in running)
                L.append("saveload %d %d %s" % (i, j, self.rnd.choice(["text", "binary"]))); running[j] = True; continue
            if self.copy and r < self.copy and self.ninst > 1:
                cands = [k for k in range(self.ninst) if k != i and k not in burnt]
                if not cands: continue
                j = self.rnd.choice(cands)
                # copy-/move-construct only into a slot that holds no object yet, and never reuse the slot of a moved-from object
                # (back closures refer to objects, the model refers to slots: the two must stay in one-to-one correspondence)
                op = "assign" if j in running else self.rnd.choice(["copy", "assign"])
                if self.moves and self.rnd.random() < self.moves:
                    op = "moveassign" if j in running else self.rnd.choice(["move", "moveassign"])
                    L.append("%s %d %d" % (op, i, j)); running[j] = True; del running[i]; burnt.add(i); continue
                L.append("%s %d %d" % (op, i, j)); running[j] = True; sources.add(i); continue
            r = self.rnd.random()
            if r < self.restart:
                L.append("stop %d %s -" % (i, self.gv())); running[i] = False
            elif r < self.restart + self.enq:
                L.append("enq %d %s %d" % (i, self.rnd.choice(self.d.evnames), self.newp()))
            elif r < self.restart + self.enq + self.drain:
                L.append("%s %d %s %s" % (self.rnd.choice(["drain", "drain1", "drain1"]), i, self.gv(), self.plan()))
            else:
                ev = self.rnd.choice(self.hot) if (self.hot and self.rnd.random() < self.evbias) else self.rnd.choice(self.d.evnames)
                L.append("pe %d %s %d %s %s" % (i, ev, self.newp(), self.gv(), self.plan()))
        return L

def gen_scripts(d, seed, nexec, **kw):
    g = ScriptGen(d, seed, **kw)
    return [g.execution() for _ in range(nexec)]

# ---------------------------------------------------------------- running
def run_driver(binary, script_lines, trace_path, timeout=120, wrapper=()):
    sp = trace_path + ".script"
    open(sp, "w").write("\n".join(script_lines) + "\n")
    r = subprocess.run(list(wrapper) + [binary, sp, trace_path], capture_output=True, text=True, timeout=timeout)
    return r.returncode, r.stderr

def split_executions(trace_path):
    """returns list of (first_line_no, last_line_no) (1-based, inclusive) per execution, by reset lines"""
    starts = []
    n = 0
    with open(trace_path) as f:
        for n, line in enumerate(f, 1):
            if line.startswith('{"k":"reset"'): starts.append(n)
    spans = []
    for k, s in enumerate(starts):
        e = (starts[k + 1] - 1) if k + 1 < len(starts) else n
        spans.append((s, e))
    return spans, n

class Validator:
    """one translated copy of the spec in a work directory; validates trace files against MC modules"""
    def __init__(self, workdir):
        self.dir = workdir
        self.vars = tlc.translate(workdir)
        self.defs = set()
        self.mods = {}
    def ensure_def(self, d):
        if d.name not in self.defs:
            open(os.path.join(self.dir, "Def_%s.tla" % d.name), "w").write(gen.emit_tla(d))
            self.defs.add(d.name)
    def trace_module(self, d, cfg, ninst=1, invs=()):
        key = (d.name, cfg, ninst, tuple(invs))
        if key not in self.mods:
            self.ensure_def(d)
            tag = hashlib.md5(",".join(invs).encode()).hexdigest()[:6] if invs else "x"
            self.mods[key] = tlc.write_mc(self.dir, d.name, cfg, "trace", self.vars, ninst=ninst, trace_invs=invs,
                                          name="TR_%s_%s_%d_%s" % (d.name, cfg, ninst, tag))
        return self.mods[key]
    def validate(self, d, cfg, trace_path, ninst=1, timeout=2400, invs=()):
        name = self.trace_module(d, cfg, ninst, invs)
        rc, out, t = tlc.run_tlc(self.dir, name, trace=os.path.abspath(trace_path), workers=1, timeout=timeout)
        if rc in (-9, 137):       # killed from outside (memory pressure): try once more
            time.sleep(20)
            rc, out, t = tlc.run_tlc(self.dir, name, trace=os.path.abspath(trace_path), workers=1, timeout=timeout)
        st = tlc.parse_stats(out)
        if "maxl" not in st:
            raise ToolError("TLC did not report acceptance register for %s (rc=%d):\n%s" % (trace_path, rc, out[-3000:]))
        st["accepted"] = st["maxl"] == st["nl"] + 1 and st.get("pviol", 0) == 0
        st["rc"] = rc; st["secs"] = t; st["out"] = out
        return st

def first_divergence(v, d, cfg, binary, scripts, trace_path, ninst=1, invs=()):
    """validate the concatenated executions; on rejection isolate the failing execution and re-validate it alone.
       returns None if accepted, else dict(script, trace_lines, last_matched, exec_index)"""
    lines = [l for ex in scripts for l in ex]
    try:
        rc, err = run_driver(binary, lines, trace_path)
    except subprocess.TimeoutExpired:
        return nonterminating(v, d, cfg, binary, scripts, trace_path, ninst, invs)
    if rc != 0:
        raise ToolError("driver %s exited with %d: %s" % (binary, rc, err[-500:]))
    st = v.validate(d, cfg, trace_path, ninst, invs=invs)
    if st["accepted"]:
        return None, st
    spans, n = split_executions(trace_path)
    maxl = st["maxl"] if st["maxl"] != st["nl"] + 1 else st["pviol"]
    if st.get("pviol", 0) and st["pviol"] < maxl: maxl = st["pviol"]
    idx = 0
    for k, (s, e) in enumerate(spans):
        if s < maxl <= e + 1: idx = k        # maxl on a reset line: the execution before it did not terminate in the model
    # re-run the single execution
    single = trace_path + ".single"
    rc, err = run_driver(binary, scripts[idx], single)
    st1 = v.validate(d, cfg, single, ninst, invs=invs)
    tl = open(single).read().splitlines()
    kind = "rejected" if st1["maxl"] != st1["nl"] + 1 else ("property" if st1.get("pviol", 0) else "none")
    return {"exec_index": idx, "script": scripts[idx], "trace": tl, "last_matched": st1["maxl"] - 1, "prop_line": st1.get("pviol", 0),
            "kind": kind, "repeats": not st1["accepted"], "nl": st1["nl"]}, st


def nonterminating(v, d, cfg, binary, scripts, trace_path, ninst, invs):
    """the driver did not finish: find the execution that hangs and let the specification judge the prefix of its trace.
       The model rejects the prefix -> the implementation left the specification before it started to loop (a divergence like any other);
       the model follows every line -> the machine definition itself loops for ever: a tool error, not a verdict."""
    for idx, sc in enumerate(scripts):
        single = trace_path + ".single"
        try:
            run_driver(binary, sc, single, timeout=10)
            continue
        except subprocess.TimeoutExpired:
            pass
        tl = []
        with open(single, errors="replace") as f:
            for ln in f:
                if not ln.endswith("\n") or len(tl) >= 3000: break
                tl.append(ln.rstrip("\n"))
        open(single, "w").write("\n".join(tl) + "\n")
        st1 = v.validate(d, cfg, single, ninst, invs=invs)
        if st1["maxl"] == st1["nl"] + 1:
            raise ToolError("neither the implementation nor the model terminates on this script (the machine definition loops): %s" % json.dumps(sc))
        return {"exec_index": idx, "script": sc, "trace": tl, "last_matched": st1["maxl"] - 1, "prop_line": st1.get("pviol", 0),
                "kind": "rejected", "repeats": True, "nl": st1["nl"], "nonterminating": True}, st1
    raise ToolError("driver %s timed out on the concatenated script but on no single execution" % binary)

# ---------------------------------------------------------------- TLC-generated suites (shortest input script per reachable quiescent state)
def path_to_script(path):
    """path: list of records emitted by the model in mc mode -> script lines of one execution"""
    lines = ["reset"]; cur = None; gv = {}; plan = []
    ng = 0
    def flush():
        if cur is None: return
        n = max([int(g[1:]) for g in gv] + [0])
        gvs = "".join("1" if gv.get("g%d" % k) else "0" for k in range(1, n + 1)) or "-"
        pl = ",".join(plan) or "-"
        op = cur["call"]
        if op == "pe": lines.append("pe %d %s %d %s %s" % (cur["i"], cur["e"], cur["p"], gvs, pl))
        elif op == "enq": lines.append("enq %d %s %d" % (cur["i"], cur["e"], cur["p"]))
        elif op in ("start", "stop", "drain", "drain1"): lines.append("%s %d %s %s" % (op, cur["i"], gvs, pl))
        elif op in ("copy", "assign"): lines.append("%s %d %d" % (op, cur["i"], cur["p"]))
        elif op == "saveload": lines.append("saveload %d %d text" % (cur["i"], cur["p"]))
    for rec in path:
        if "call" in rec:
            flush(); cur = rec; gv = dict(rec.get("gc", {})) if isinstance(rec.get("gc"), dict) else {}; plan = []
        else:
            if rec["k"] == "g": gv[rec["g"]] = rec["r"]
            d = rec["d"]
            if d["op"] == "throw": plan.append("%d:throw" % rec["cb"])
            elif d["op"] in ("pe", "enq"): plan.append("%d:%s:%s:%s:%d" % (rec["cb"], d["op"], d["on"], d["e"], d["p"]))
    flush()
    return lines

def tlc_suite(v, d, cfg, mcp, name):
    """run the model in mc mode and collect one script per distinct quiescent state (BFS: a shortest one)"""
    import re
    extra = 'EmitPath == (pc = "M1" /\\ stack = <<>>) => PrintT(<<"PATH", ToJson(path)>>)'
    n = tlc.write_mc(v.dir, d.name, cfg, "mc", v.vars, maxcalls=mcp["maxcalls"], budget=mcp["budget"], apis=mcp["apis"], dirops=mcp["dirops"],
                     direvs=mcp["direvs"], ninst=mcp.get("ninst", 1), percall=mcp.get("percall", True), invariants=[], name=name, extra_defs=extra, constraint="EmitPath")
    rc, out, t = tlc.run_tlc(v.dir, n, workers=1, timeout=1500, heap="6g")
    if rc != 0 and not (rc == 124 and '<<"PATH"' in out):     # time limit: breadth-first, so the scripts emitted so far are the shortest ones
        raise ToolError("suite generation failed for %s/%s (rc=%d):\n%s" % (d.name, cfg, rc, out[-2000:]))
    scripts = []
    seen = set()
    for m in re.finditer(r'<<"PATH", "(.*)">>', out):
        js = m.group(1).replace('\\"', '"')
        try: sc = path_to_script(json.loads(js))
        except ValueError: continue       # last line cut by the time limit
        key = "\n".join(sc)
        if key not in seen and len(sc) > 1:
            seen.add(key); scripts.append(sc)
    return scripts, tlc.parse_stats(out)
