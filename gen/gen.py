#!/usr/bin/env python3
"""gen.py -- single source of truth for a corpus machine: emits the TLA+ constant Def_<name> and the C++ drivers.

Corpus row syntax (strings):   SRC EVT TGT [guard] / actions
  SRC:  State | Sub!XP            (row leaving exit point XP of submachine Sub)
  TGT:  State | -  (internal row) | Sub.S (explicit entry) | Sub.S1+Sub.S2 (fork) | Sub:EP (entry point)
  guard: expression over atoms gN with ! && || ( )
  actions: comma list of aN | defer
State-internal / sm-internal rows:   EVT [guard] / actions
"""
import json, re, sys, os

CONFIGS = ["back", "back_fct", "back11", "mp11", "mp11_fct", "mp11_fpa"]
EXTRA_CONFIGS = ["back_circ"]     # back with queue_container_circular (capacity 64 set by the driver); only where a plan asks for it

# ---------------------------------------------------------------- parsing
def parse_guard(s):
    toks = re.findall(r'\|\||&&|!|\(|\)|[A-Za-z_][A-Za-z_0-9]*', s)
    pos = [0]
    def peek(): return toks[pos[0]] if pos[0] < len(toks) else None
    def eat():
        t = toks[pos[0]]; pos[0] += 1; return t
    def p_or():
        l = p_and()
        while peek() == '||':
            eat(); r = p_and(); l = ["or", l, r]
        return l
    def p_and():
        l = p_not()
        while peek() == '&&':
            eat(); r = p_not(); l = ["and", l, r]
        return l
    def p_not():
        if peek() == '!':
            eat(); return ["not", p_not()]
        if peek() == '(':
            eat(); e = p_or(); assert eat() == ')'; return e
        return ["atom", eat()]
    e = p_or()
    assert pos[0] == len(toks), s
    return e

def split_ga(rest):
    """'[guard] / a1,a2' in either order -> (guard tree or None, [actions])"""
    g = None; acts = []
    m = re.search(r'\[(.*?)\]', rest)
    if m:
        g = parse_guard(m.group(1)); rest = rest[:m.start()] + rest[m.end():]
    m = re.search(r'/\s*(.*)$', rest)
    if m:
        acts = [a.strip() for a in m.group(1).split(',') if a.strip()]
    return g, acts

def parse_row(s):
    parts = s.split(None, 3)
    src, ev, tgt = parts[0], parts[1], parts[2]
    rest = parts[3] if len(parts) > 3 else ""
    g, acts = split_ga(rest)
    row = {"ev": ev, "g": g, "a": acts, "int": False, "ek": "plain", "named": [], "xp": "", "text": s}
    if '!' in src:
        sub, xp = src.split('!'); row["src"] = sub; row["xp"] = xp
    else:
        row["src"] = src
    if tgt == '-':
        row["int"] = True; row["tgt"] = row["src"]
    elif ':' in tgt:
        sub, ep = tgt.split(':'); row["tgt"] = sub; row["ek"] = "entrypt"; row["named"] = [ep]
    elif '.' in tgt:
        names = tgt.split('+'); subs = set(n.split('.')[0] for n in names); assert len(subs) == 1, s
        row["tgt"] = subs.pop(); row["ek"] = "explicit"; row["named"] = [n.split('.')[1] for n in names]
    else:
        row["tgt"] = tgt
    return row

def parse_irow(s, owner):
    parts = s.split(None, 1)
    ev = parts[0]; rest = parts[1] if len(parts) > 1 else ""
    g, acts = split_ga(rest)
    return {"src": owner, "ev": ev, "tgt": owner, "g": g, "a": acts, "int": True, "ek": "plain", "named": [], "xp": "", "text": s}

def guard_atoms(g):
    if g is None: return []
    if g[0] == "atom": return [g[1]]
    out = []
    for x in g[1:]: out += guard_atoms(x)
    return out

class Def:
    def __init__(self, j):
        self.j = j
        self.name = j["name"]
        self.root = j["root"]
        self.events = j["events"]            # name -> {base:..}
        self.kleene = j.get("kleene", False) # True if rows may use the trigger 'any'
        self.serial = j.get("serial", False) # drivers link Boost.Serialization and offer saveload
        self.flags = j.get("flags", [])
        self.configs = j.get("configs", CONFIGS)
        self.machines = {}
        for mn, mj in j["machines"].items():
            m = {"name": mn, "init": mj["init"], "states": {}, "table": [parse_row(r) for r in mj.get("table", [])],
                 "smtab": [parse_irow(r, mn) for r in mj.get("itable", [])],
                 "hist": mj.get("history", {"kind": "none", "events": []}),
                 "policy": mj.get("policy", "after_entry"), "ser": mj.get("ser", False),
                 "queue_first": mj.get("queue_first", False)}
            m["hist"].setdefault("events", [])
            for sn, sj in mj.get("states", {}).items():
                st = {"kind": sj.get("kind", "simple"), "defers": sj.get("defers", []), "flags": sj.get("flags", []),
                      "itab": [parse_irow(r, sn) for r in sj.get("itable", [])], "zone": sj.get("zone", 0),
                      "event": sj.get("event", ""), "ends": sj.get("ends", []), "ser": sj.get("ser", False), "defer_if": sj.get("defer_if", {})}
                m["states"][sn] = st
            self.machines[mn] = m
        # states mentioned only in rows / init get default attributes
        for m in self.machines.values():
            names = list(m["init"])
            for r in m["table"]:
                names += [r["src"], r["tgt"]]
            for n in names:
                if n not in m["states"]:
                    m["states"][n] = {"kind": "sub" if n in self.machines else "simple", "defers": [], "flags": [],
                                      "itab": [], "zone": 0, "event": "", "ends": [], "ser": False, "defer_if": {}}
            for n, st in m["states"].items():
                if n in self.machines: st["kind"] = "sub"
        self.order = self.topo()
        for m in self.machines.values(): self.compute_regions(m)
        # global tables
        self.evnames = list(self.events.keys())
        self.snames = []
        for mn in self.order:
            for sn in self.machines[mn]["states"]:
                if sn not in self.snames: self.snames.append(sn)
        if self.root not in self.snames: self.snames.append(self.root)
        self.condguards = sorted(set(g for m in self.machines.values() for st in m["states"].values() for g in st.get("defer_if", {}).values()), key=lambda x: int(x[1:]))
        self.guards = sorted(set(a for m in self.machines.values() for r in self.all_rows(m) for a in guard_atoms(r["g"])) | set(self.condguards),
                             key=lambda x: int(x[1:]))
        self.sticky = sorted(set(a for m in self.machines.values() for r in m["table"] if r["ev"] == "none" for a in guard_atoms(r["g"])),
                             key=lambda x: int(x[1:]))

    def all_rows(self, m):
        rows = list(m["table"]) + list(m["smtab"])
        for st in m["states"].values(): rows += st["itab"]
        return rows

    def topo(self):
        order = []; seen = set()
        def visit(mn):
            if mn in seen: return
            seen.add(mn)
            for sn in self.machines[mn]["states"]:
                if sn in self.machines: visit(sn)
            order.append(mn)
        visit(self.root)
        return order   # submachines first

    def compute_regions(self, m):
        reg = {}
        for k, s in enumerate(m["init"]): reg[s] = k + 1
        for sn, st in m["states"].items():
            if st["kind"] in ("explicit", "entrypt"): reg[sn] = st["zone"] + 1
        changed = True
        while changed:
            changed = False
            for r in m["table"]:
                if r["int"]: continue
                if r["src"] in reg and r["tgt"] not in reg:
                    reg[r["tgt"]] = reg[r["src"]]; changed = True
        for sn in m["states"]:
            if sn not in reg:
                raise SystemExit("state %s of %s has no region" % (sn, m["name"]))
        m["region"] = reg

    def has_defer(self, m):
        return any(st["defers"] for st in m["states"].values()) or any("defer" in r["a"] for r in self.all_rows(m))
    def has_compl(self, m):
        return any(r["ev"] == "none" for r in m["table"])
    def sid(self, name): return self.snames.index(name)

# ---------------------------------------------------------------- TLA+ emission
def q(s): return '"%s"' % s
def tset(xs): return "{" + ", ".join(q(x) for x in xs) + "}"
def tseq(xs): return "<<" + ", ".join(xs) + ">>"
def tguard(g):
    if g is None: return "<<>>"
    if g[0] == "atom": return '<<"atom", %s>>' % q(g[1])
    return "<<" + q(g[0]) + ", " + ", ".join(tguard(x) for x in g[1:]) + ">>"
def trow(r):
    return '[src |-> %s, ev |-> %s, tgt |-> %s, g |-> %s, a |-> %s, int |-> %s, ek |-> %s, named |-> %s, xp |-> %s]' % (
        q(r["src"]), q(r["ev"]), q(r["tgt"]), tguard(r["g"]), tseq(q(a) for a in r["a"]),
        "TRUE" if r["int"] else "FALSE", q(r["ek"]), tseq(q(n) for n in r["named"]), q(r["xp"]))
def tfun(d, f):
    if not d: return "<<>>"
    return "[" + ", ".join("%s |-> %s" % (k, f(v)) for k, v in d.items()) + "]"

def emit_tla(d, modname=None):
    modname = modname or ("Def_" + d.name)
    out = ["---- MODULE %s ----" % modname, "\\* generated by gen/gen.py from corpus/%s.json -- do not edit" % d.name,
           "%s == [ root |-> %s," % (modname, q(d.root)),
           "  events |-> %s," % tset(d.evnames),
           "  base |-> %s," % tfun(d.events, lambda v: q(v.get("base", ""))),
           "  flags |-> %s," % tseq(q(f) for f in d.flags),
           "  guards |-> %s," % tset(d.guards),
           "  sticky |-> %s," % tset(d.sticky),
           "  condguards |-> %s," % tset(d.condguards),
           "  gidx |-> %s," % tfun({g: int(g[1:]) for g in d.guards}, str),
           "  serial |-> %s," % ("TRUE" if d.serial else "FALSE"),
           "  allstates |-> %s," % tseq(q(sn) for sn in d.snames if sn != d.root),
           "  counted |-> %s," % tset([e for e, ej in d.events.items() if ej.get("kind", "trivial") in ("nontrivial", "throwmove", "selfref")]),
           "  M |-> ["]
    ms = []
    for mn in d.order:
        m = d.machines[mn]; sts = m["states"]
        s = "    %s |-> [ init |-> %s,\n" % (mn, tseq(q(x) for x in m["init"]))
        s += "      kind |-> %s,\n" % tfun(sts, lambda v: q(v["kind"]))
        s += "      region |-> %s,\n" % tfun({k: m["region"][k] for k in sts}, str)
        s += "      defers |-> %s,\n" % tfun(sts, lambda v: tset(v["defers"]))
        s += "      flags |-> %s,\n" % tfun(sts, lambda v: tset(v["flags"]))
        s += "      ends |-> %s,\n" % tfun(sts, lambda v: tset(v["ends"]))
        s += "      defcond |-> %s,\n" % tfun(sts, lambda v: "{" + ", ".join("<<%s, %s>>" % (q(e), q(g)) for e, g in v.get("defer_if", {}).items()) + "}")
        s += "      xpev |-> %s,\n" % tfun(sts, lambda v: q(v["event"]))
        s += "      dorder |-> %s,\n" % tseq(q(sn) for sn in sts if sn not in d.machines and sts[sn]["kind"] == "simple")
        s += "      ser |-> %s, selfser |-> %s,\n" % (tset([k for k, v in sts.items() if v.get("ser")]), "TRUE" if m.get("ser") else "FALSE")
        s += "      itab |-> %s,\n" % tfun(sts, lambda v: tseq(trow(r) for r in v["itab"]))
        s += "      hist |-> [kind |-> %s, events |-> %s], policy |-> %s, qfirst |-> %s,\n" % (
            q(m["hist"]["kind"]), tset(m["hist"]["events"]), q(m["policy"]), "TRUE" if m["queue_first"] else "FALSE")
        s += "      table |-> %s,\n" % ("<< " + ",\n                 ".join(trow(r) for r in m["table"]) + " >>")
        s += "      smtab |-> %s ]" % tseq(trow(r) for r in m["smtab"])
        ms.append(s)
    out.append(",\n".join(ms))
    out.append("  ] ]")
    out.append("====")
    return "\n".join(out) + "\n"

# ---------------------------------------------------------------- C++ emission
def cguard(g):
    if g is None: return "none"
    if g[0] == "atom": return "Gd<%d>" % int(g[1][1:])
    if g[0] == "not": return "Not_<%s >" % cguard(g[1])
    if g[0] == "and": return "And_<%s,%s >" % (cguard(g[1]), cguard(g[2]))
    if g[0] == "or": return "Or_<%s,%s >" % (cguard(g[1]), cguard(g[2]))
def cact1(a): return "Defer" if a == "defer" else "Ac<%d>" % int(a[1:])
def cact(acts):
    if not acts: return "none"
    if len(acts) == 1: return cact1(acts[0])
    return "ActionSequence_<mpl::vector<%s> >" % ",".join(cact1(a) for a in acts)
def cev(ev, cfg):
    if ev == "none": return "none"
    if ev == "any": return "std::any" if cfg.startswith("mp11") else "boost::any"
    if ev == "anyu": return "vrt::UAny"        # user-declared Kleene type (is_kleene_event specialised in verif_rt.hpp)
    return ev

def cexpr(g, ev):
    """guard expression as the C++ expression a user of the member-function front-end would write"""
    if g[0] == "atom": return "%s(e)" % g[1]
    if g[0] == "not": return "!%s" % (cexpr(g[1], ev) if g[1][0] in ("atom", "not") else "(" + cexpr(g[1], ev) + ")")
    l, r = g[1], g[2]
    def par(x, parent):
        t = cexpr(x, ev)
        if x[0] == "or" and parent == "and": return "(" + t + ")"
        return t
    return "%s %s %s" % (par(l, g[0]), "&&" if g[0] == "and" else "||", par(r, g[0]))

def pexpr(g):
    """guard expression in the PlantUML front-end syntax (one level of parentheses)"""
    if g[0] == "atom": return g[1]
    if g[0] == "not": return "!%s" % (pexpr(g[1]) if g[1][0] in ("atom", "not") else "(" + pexpr(g[1]) + ")")
    l, r = g[1], g[2]
    def par(x, parent):
        t = pexpr(x)
        if x[0] == "or" and parent == "and": return "(" + t + ")"
        return t
    return "%s %s %s" % (par(l, g[0]), "&&" if g[0] == "and" else "||", par(r, g[0]))

def emit_machines_basic(d, cfg, L, sname):
    """member-function front-end: row / a_row / g_row / _row and the irow family, guards and actions are members of the front-end"""
    mp11 = cfg.startswith("mp11"); b11 = cfg.startswith("back11")
    defs = []
    for mn in d.order:
        m = d.machines[mn]
        for sn, st in m["states"].items():
            if st["kind"] == "sub": continue
            assert st["kind"] == "simple" and not st["itab"], "basic front-end variant supports simple states without internal tables"
            L.append("typedef St<%d> %s;" % (d.sid(sn), sname(mn, sn)))
        L.append("struct M_%s_ : MDef<M_%s_,%d> {" % (mn, mn, d.sid(mn)))
        L.append("  typedef mpl::vector<%s> initial_state;" % ",".join(sname(mn, s) for s in m["init"]))
        rows = []; members = {}
        for k, r in enumerate(m["table"]):
            ev = r["ev"]
            gname = aname = None
            if r["g"] is not None:
                if r["g"][0] == "atom": gname = r["g"][1]
                else:
                    gname = "gx%d" % k
                    members[(gname, ev)] = "bool M_%s_::%s(%s const& e) { return %s; }" % (mn, gname, ev, cexpr(r["g"], ev))
                for a in guard_atoms(r["g"]):
                    members[(a, ev)] = "bool M_%s_::%s(%s const& e) { bool r = RT::G()[%d]; cb(\"g\", \"%s\", e, static_cast<M_%s&>(*this), -4, true, r, -1); return r; }" % (mn, a, ev, int(a[1:]), a, mn)
            if r["a"]:
                if len(r["a"]) == 1: aname = r["a"][0]
                else:
                    aname = "ax%d" % k
                    members[(aname, ev)] = "void M_%s_::%s(%s const& e) { %s }" % (mn, aname, ev, " ".join("%s(e);" % a for a in r["a"]))
                for a in r["a"]:
                    members[(a, ev)] = "void M_%s_::%s(%s const& e) { cb(\"a\", \"%s\", e, static_cast<M_%s&>(*this), -4, true, true, -1); }" % (mn, a, ev, a, mn)
            src = sname(mn, r["src"]); tgt = sname(mn, r["tgt"])
            A = "&M_%s_::%s" % (mn, aname) if aname else None
            G = "&M_%s_::%s" % (mn, gname) if gname else None
            if r["int"]:
                if A and G: rows.append("irow<%s,%s,%s,%s>" % (src, ev, A, G))
                elif A: rows.append("a_irow<%s,%s,%s>" % (src, ev, A))
                elif G: rows.append("g_irow<%s,%s,%s>" % (src, ev, G))
                else: rows.append("_irow<%s,%s>" % (src, ev))
            else:
                # alternate between the row and the row2 families (row2: the called object is named explicitly)
                if A and G: rows.append(("row<%s,%s,%s,%s,%s>" if k % 2 == 0 else "row2<%s,%s,%s,M_{0}_,%s,M_{0}_,%s>".format(mn)) % (src, ev, tgt, A, G))
                elif A: rows.append(("a_row<%s,%s,%s,%s>" if k % 2 == 0 else "a_row2<%s,%s,%s,M_{0}_,%s>".format(mn)) % (src, ev, tgt, A))
                elif G: rows.append(("g_row<%s,%s,%s,%s>" if k % 2 == 0 else "g_row2<%s,%s,%s,M_{0}_,%s>".format(mn)) % (src, ev, tgt, G))
                else: rows.append("_row<%s,%s,%s>" % (src, ev, tgt))
        for (nm, ev), body in members.items():
            L.append("  %s %s(%s const& e);" % ("bool" if body.startswith("bool") else "void", nm, ev))
            defs.append("inline " + body)
        L.append("  struct transition_table : mpl::vector<\n    %s > {};" % ",\n    ".join(rows))
        L.append("};")
        if mp11: L.append("typedef SMx<M_%s_, vrt_cfg> M_%s;" % (mn, mn))
        elif b11: L.append("typedef msm::back11::state_machine<M_%s_> M_%s;" % (mn, mn))
        else:
            L.append("typedef msm::back::state_machine<M_%s_%s> M_%s;" % (mn, ", msm::back::favor_compile_time" if "_fct" in cfg else "", mn))
            if "_fct" in cfg and mn != d.root: L.append("BOOST_MSM_BACK_GENERATE_PROCESS_EVENT(M_%s)" % mn)
        L.append("template<> struct vrt::MInfo<M_%s> { static const char* name() { return %s; } };" % (mn, q(mn)))
    L.extend(defs)

def emit_machines_puml(d, cfg, L, sname):
    """PlantUML front-end: the transition tables are strings; states / events / actions / guards are found by name"""
    mp11 = cfg.startswith("mp11"); b11 = cfg.startswith("back11")
    L.append("namespace boost { namespace msm { namespace front { namespace puml {")
    for a in sorted(set(x for m in d.machines.values() for r in d.all_rows(m) for x in r["a"] if x != "defer"), key=lambda x: int(x[1:])):
        L.append('template<> struct Action<by_name("%s")> : vrt::Ac<%d> {};' % (a, int(a[1:])))
    for g in d.guards:
        L.append('template<> struct Guard<by_name("%s")> : vrt::Gd<%d> {};' % (g, int(g[1:])))
    for mn in d.order:
        for sn, st in d.machines[mn]["states"].items():
            if st["kind"] == "sub": continue
            assert st["kind"] == "simple" and not st["itab"]
            L.append('template<> struct State<by_name("%s")> : msm::front::state<>, vrt::Beh<%d> { using vrt::Beh<%d>::on_entry; using vrt::Beh<%d>::on_exit; };'
                     % (sn, d.sid(sn), d.sid(sn), d.sid(sn)))
    L.append("}}}}")
    L.append("using namespace boost::msm::front::puml;")
    for mn in d.order:
        m = d.machines[mn]
        for sn, st in m["states"].items():
            if st["kind"] != "sub": L.append('typedef State<by_name("%s")> %s;' % (sn, sname(mn, sn)))
        lines = ["@startuml %s" % mn, "state %s{" % mn]
        for k, s0 in enumerate(m["init"]):
            if k: lines.append("--")
            lines.append("[*] -> %s" % s0)
        arrows = ["->", "-->", "--->", "---->"]
        for k, r in enumerate(m["table"]):
            ev = ("-" + r["ev"]) if r["int"] else r["ev"]
            t = "%s %s %s : %s" % (r["src"], arrows[k % 4], r["tgt"], ev)
            ga = []
            if r["a"]: ga.append("/ " + ", ".join(r["a"]))
            if r["g"] is not None: ga.append("[%s]" % pexpr(r["g"]))
            if k % 3 == 2: ga.reverse()       # the documented grammar allows the guard before or after the actions
            lines.append((t + "   " + "  ".join(ga)).rstrip())
        lines += ["}", "@enduml"]
        L.append("struct M_%s_ : MDef<M_%s_,%d> {" % (mn, mn, d.sid(mn)))
        L.append('  BOOST_MSM_PUML_DECLARE_TABLE(R"(\n%s\n)")' % "\n".join("    " + x for x in lines))
        L.append("};")
        if mp11: L.append("typedef SMx<M_%s_, vrt_cfg> M_%s;" % (mn, mn))
        elif b11: L.append("typedef msm::back11::state_machine<M_%s_> M_%s;" % (mn, mn))
        else: L.append("typedef msm::back::state_machine<M_%s_> M_%s;" % (mn, mn))
        L.append("template<> struct vrt::MInfo<M_%s> { static const char* name() { return %s; } };" % (mn, q(mn)))
        if mn != d.root:
            L.append('namespace boost { namespace msm { namespace front { namespace puml { template<> struct State<by_name("%s")> : M_%s {}; }}}}' % (mn, mn))

def emit_cpp(d, cfg, opts=None, fe="functor"):
    opts = opts or {}
    mp11 = cfg.startswith("mp11"); b11 = cfg.startswith("back11"); fct = "_fct" in cfg; fpa = "_fpa" in cfg
    circ = opts.get("circular", False) or cfg.endswith("_circ")
    L = []
    L.append("// generated by gen/gen.py from corpus/%s.json, configuration %s -- do not edit" % (d.name, cfg))
    if mp11: L.append("#define VCFG_MP11 1")
    elif b11: L.append("#define VCFG_BACK11 1")
    else: L.append("#define VCFG_BACK 1")
    if fct: L.append("#define VCFG_FCT 1")
    vis = (not mp11) and fe == "functor"          # back / back11: polymorphic base state with an accept() for visit_current_states / get_state_by_id
    if vis: L.append("#define VCFG_VIS 1")
    if d.serial and not mp11: L.append("#define VCFG_SER 1")
    L.append('#include "verif_rt.hpp"')
    L.append("using namespace vrt; using namespace boost::msm::front;")
    L.append("const char* const vrt::EVNAME[] = {%s};" % ", ".join(q(e) for e in d.evnames))
    L.append("static const int NEVENTS = %d;" % len(d.evnames))
    L.append("const char* const vrt::SNAME[] = {%s};" % ", ".join(q(s) for s in d.snames))
    # events
    if fe == "puml":
        L.append("#include <boost/msm/front/puml/puml.hpp>")
        L.append("namespace boost { namespace msm { namespace front { namespace puml {")
        for k, en in enumerate(d.events):
            L.append('template<> struct Event<by_name("%s")> : vrt::Ev<%d> { Event() {} explicit Event(int x) : vrt::Ev<%d>(x) {} };' % (en, k, k))
        L.append("}}}}")
        for en in d.events:
            L.append('typedef boost::msm::front::puml::Event<boost::msm::front::puml::by_name("%s")> %s;' % (en, en))
    for k, (en, ej) in enumerate(d.events.items()):
        if fe == "puml": break
        base = ej.get("base", "")
        if "size" in ej:
            kind = {"trivial": 0, "nontrivial": 1, "throwmove": 2, "selfref": 3}[ej.get("kind", "trivial")]
            b = "EvS<%d,%d,%d,%d>" % (k, ej["size"], ej.get("align", 4), kind)
            L.append("struct %s : %s { %s() {} explicit %s(int x) : %s(x) {} };" % (en, b, en, en, b))
        elif base:
            L.append("struct %s : %s { static constexpr int idx = %d; %s() { dyn = %d; } explicit %s(int x) : %s(x) { dyn = %d; } };"
                     % (en, base, k, en, k, en, base, k))
        else:
            L.append("struct %s : Ev<%d> { %s() {} explicit %s(int x) : Ev<%d>(x) {} };" % (en, k, en, en, k))
    def evlist(evs): return "mpl::vector<%s>" % ",".join(cev(e, cfg) for e in evs)
    def fllist(fs): return "mpl::vector<%s>" % ",".join("Fl<%d>" % (d.flags.index(f) + 1) for f in fs)
    def irows(rows): return "mpl::vector<%s>" % ",".join("Internal<%s,%s,%s >" % (cev(r["ev"], cfg), cact(r["a"]), cguard(r["g"])) for r in rows)
    def sname(mn, sn): return "M_%s" % sn if sn in d.machines else "S_%s_%s" % (mn, sn)
    if fe == "basic": emit_machines_basic(d, cfg, L, sname)
    if fe == "puml": emit_machines_puml(d, cfg, L, sname)
    for mn in (d.order if fe == "functor" else []):
        m = d.machines[mn]
        # simple states
        for sn, st in m["states"].items():
            if st["kind"] == "sub": continue
            t = sname(mn, sn); sid = d.sid(sn)
            if st["kind"] == "simple" and st.get("defer_if"):
                # backmp11 conditional deferral: is_event_deferred(event, fsm) decides per occurrence (here: by the guard valuation of the call)
                conds = " ".join("template <class F> bool is_event_deferred(const %s&, F&) const { return RT::G()[%d]; }" % (e, int(g[1:])) for e, g in st["defer_if"].items())
                L.append("struct %s : St<%d,%s,%s,%s,%s > { %s template <class E, class F> bool is_event_deferred(const E&, F&) const { return true; } };"
                         % (t, sid, evlist(st["defers"]), fllist(st["flags"]), irows(st["itab"]), "true" if st.get("ser") else "false", conds))
            elif st["kind"] == "simple":
                L.append("typedef St<%d,%s,%s,%s,%s > %s;" % (sid, evlist(st["defers"]), fllist(st["flags"]), irows(st["itab"]), "true" if st.get("ser") else "false", t))
            elif st["kind"] == "explicit":
                L.append("typedef StX<%d,%d,%s,%s,%s > %s;" % (sid, st["zone"], evlist(st["defers"]), fllist(st["flags"]), irows(st["itab"]), t))
            elif st["kind"] == "entrypt":
                L.append("typedef StEP<%d,%d> %s;" % (sid, st["zone"], t))
            elif st["kind"] == "exitpt":
                L.append("typedef StXP<%d,%s> %s;" % (sid, st["event"], t))
            elif st["kind"] == "terminate":
                L.append("typedef StT<%d,%s > %s;" % (sid, fllist(st["flags"]), t))
            elif st["kind"] == "interrupt":
                L.append("typedef StI<%d,%s,%s > %s;" % (sid, evlist(st["ends"]), fllist(st["flags"]), t))
        # the machine front-end
        L.append("struct M_%s_ : MDef<M_%s_,%d,%s> {" % (mn, mn, d.sid(mn), "true" if m.get("ser") else "false"))
        L.append("  typedef mpl::vector<%s> initial_state;" % ",".join(sname(mn, s) for s in m["init"]))
        rows = []
        for r in m["table"]:
            src = sname(mn, r["src"])
            if r["xp"]: src = "M_%s::exit_pt<S_%s_%s>" % (r["src"], r["src"], r["xp"])
            if r["int"]: tgt = "none"
            elif r["ek"] == "entrypt": tgt = "M_%s::entry_pt<S_%s_%s>" % (r["tgt"], r["tgt"], r["named"][0])
            elif r["ek"] == "explicit":
                ts = ["M_%s::direct<S_%s_%s>" % (r["tgt"], r["tgt"], n) for n in r["named"]]
                tgt = ts[0] if len(ts) == 1 else "mpl::vector<%s>" % ",".join(ts)
            else: tgt = sname(mn, r["tgt"])
            rows.append("    Row<%s,%s,%s,%s,%s >" % (src, cev(r["ev"], cfg), tgt, cact(r["a"]), cguard(r["g"])))
        L.append("  struct transition_table : mpl::vector<\n%s > {};" % ",\n".join(rows))
        if m["smtab"]:
            L.append("  typedef %s internal_transition_table;" % irows(m["smtab"]))
        # states needing explicit creation: not source/target(as plain state) of any row and not initial
        used = set(m["init"])
        for r in m["table"]:
            used.add(r["src"]); used.add(r["tgt"])
        created = [sn for sn in m["states"] if sn not in used]
        if created:
            L.append("  typedef mpl::vector<%s> explicit_creation;" % ",".join(sname(mn, s) for s in created))
        if m["policy"] != "after_entry":
            pol = {"before_transition": "active_state_switch_before_transition", "after_exit": "active_state_switch_after_exit",
                   "after_action": "active_state_switch_after_transition_action"}[m["policy"]]
            L.append("  typedef msm::%s active_state_switch_policy;" % pol)
        # machine-as-state attributes (declared in the parent's states entry under the machine's name)
        for pm in d.machines.values():
            if mn in pm["states"]:
                st = pm["states"][mn]
                if st["defers"]: L.append("  typedef %s deferred_events;" % evlist(st["defers"]))
                if st["flags"]: L.append("  typedef %s flag_list;" % fllist(st["flags"]))
        if d.has_defer(m) and not mp11:
            L.append("  typedef int activate_deferred_events;")
        if m["queue_first"] and not mp11:
            L.append("  typedef int event_queue_before_deferred_queue;")
        if mp11 and m["hist"]["kind"] != "none":
            if m["hist"]["kind"] == "always": L.append("  using history = always_shallow_history;")
            else: L.append("  using history = shallow_history<%s>;" % ",".join(m["hist"]["events"]))
        L.append("};")
        # back-end type
        if mp11:
            cfgname = "vrt_cfg"
            L.append("typedef SMx<M_%s_, %s> M_%s;" % (mn, cfgname, mn))
        else:
            args = []
            if m["hist"]["kind"] == "always": args.append("msm::back::AlwaysHistory")
            elif m["hist"]["kind"] == "shallow": args.append("msm::back::ShallowHistory<%s >" % evlist(m["hist"]["events"]))
            if fct: args.append("msm::back::favor_compile_time")
            if circ: args.append("msm::back::queue_container_circular")
            if b11: L.append("typedef msm::back11::state_machine<M_%s_, void%s> M_%s;" % (mn, "".join(", " + a for a in args), mn))
            else: L.append("typedef msm::back::state_machine<M_%s_%s> M_%s;" % (mn, "".join(", " + a for a in args), mn))
            if fct and mn != d.root:
                L.append("BOOST_MSM_BACK_GENERATE_PROCESS_EVENT(M_%s)" % mn)
        L.append("template<> struct vrt::MInfo<M_%s> { static const char* name() { return %s; } };" % (mn, q(mn)))
    L.append("typedef M_%s Top;" % d.root)
    # send_to / flags_of
    L.append("template <class F> void vrt::send_to(F& f, int ev, int p, bool enq) { switch (ev) {")
    for k, en in enumerate(d.evnames):
        L.append("  case %d: if (enq) f.enqueue_event(%s(p)); else f.process_event(%s(p)); break;" % (k, en, en))
    L.append("  default: break; } }")
    L.append("static long gen_process(Top& f, int ev, int p) { switch (ev) {")
    for k, en in enumerate(d.evnames):
        L.append("  case %d: return (long)f.process_event(%s(p));" % (k, en))
    L.append("  default: return -1; } }")
    if d.flags:
        # the default (OR) answers first, then the answers with the AND operator
        andop = "boost::msm::backmp11::flag_and" if mp11 else "typename F::Flag_AND"
        body = ' << "," << '.join(['(f.template is_flag_active<Fl<%d> >() ? "true" : "false")' % (k + 1) for k in range(len(d.flags))] +
                                  ['(f.template is_flag_active<Fl<%d>, %s >() ? "true" : "false")' % (k + 1, andop) for k in range(len(d.flags))])
        L.append('template <class F> std::string vrt::flags_of(const F& f) { std::ostringstream o; o << "[" << %s << "]"; return o.str(); }' % body)
    else:
        L.append('template <class F> std::string vrt::flags_of(const F&) { return "[]"; }')
    # is a substate active?
    if mp11:
        L.append("template <class P, class S> bool sub_active(P& p) { for (auto x : p.get_active_state_ids()) if (x == P::template get_state_id<S>()) return true; return false; }")
    else:
        ns = "back11" if b11 else "back"
        L.append("template <class P, class S> bool sub_active(P& p) { for (int k = 0; k < P::nr_regions::value; k++) if (p.current_state()[k] == msm::%s::get_state_id<typename P::stt,S>::value) return true; return false; }" % ns)
    # dump / stamp per machine (submachines first)
    def subT(s2): return 'boost::msm::front::puml::State<boost::msm::front::puml::by_name("%s")>' % s2 if fe == "puml" else "M_%s" % s2
    for mn in d.order:
        m = d.machines[mn]
        subs = [sn for sn in m["states"] if sn in d.machines]
        L.append("static void dump_st_%s(M_%s& f, std::ostream& o) { o << \"\\\"%s\\\":\" << ids_of(f);" % (mn, mn, mn))
        for s in subs:
            L.append("  if (sub_active<M_%s,%s >(f)) { o << \",\"; dump_st_%s(f.template get_state<%s&>(), o); }" % (mn, subT(s), s, subT(s)))
        L.append("}")
        if vis:
            # get_state_by_id for the id of every region: the name of the state object the back-end hands out
            L.append("static void dump_gs_%s(M_%s& f, std::ostream& o) { o << \"\\\"%s\\\":[\"; for (int k = 0; k < M_%s::nr_regions::value; k++) { const VBase* b = f.get_state_by_id(f.current_state()[k]); o << (k ? \",\" : \"\") << \"\\\"\" << (b && b->vsid() >= 0 ? SNAME[b->vsid()] : \"?\") << \"\\\"\"; } o << \"]\";" % (mn, mn, mn, mn))
            for s in subs:
                L.append("  if (sub_active<M_%s,%s >(f)) { o << \",\"; dump_gs_%s(f.template get_state<%s&>(), o); }" % (mn, subT(s), s, subT(s)))
            L.append("}")
        L.append("static void dump_q_%s(M_%s& f, std::ostream& o) { o << \"\\\"%s\\\":\";" % (mn, mn, mn))
        if mp11:
            L.append('  o << "[" << f.pending() << "]";')
        else:
            dqs = "f.get_deferred_queue().size()" if d.has_defer(m) else "0"
            L.append('  o << "[" << f.get_message_queue_size() << "," << %s << "]";' % dqs)
        for s in subs:
            L.append("  if (sub_active<M_%s,%s >(f)) { o << \",\"; dump_q_%s(f.template get_state<%s&>(), o); }" % (mn, subT(s), s, subT(s)))
        L.append("}")
        # entry counters of the machine itself and of its simple states (C15/C16), in the order of the states dictionary
        simple = [sn for sn in m["states"] if sn not in d.machines and m["states"][sn]["kind"] in ("simple",)]
        L.append("static void dump_dt_%s(M_%s& f, std::ostream& o) { o << \"\\\"%s\\\":[\" << f.data%s << \"]\";" % (
            mn, mn, mn, "".join(' << "," << f.template get_state<S_%s_%s&>().data' % (mn, sn) for sn in simple)))
        for s2 in subs:
            L.append("  if (sub_active<M_%s,%s >(f)) { o << \",\"; dump_dt_%s(f.template get_state<%s&>(), o); }" % (mn, subT(s2), s2, subT(s2)))
        L.append("}")
        L.append("static void stamp_%s(M_%s& f, int i) { f.vinst = i;" % (mn, mn))
        if circ:
            L.append("  if (f.get_message_queue().capacity() < 64) f.get_message_queue().set_capacity(64);")
            if d.has_defer(m): L.append("  if (f.get_deferred_queue().capacity() < 64) f.get_deferred_queue().set_capacity(64);")
        for s in subs:
            L.append("  stamp_%s(f.template get_state<%s&>(), i);" % (s, subT(s)))
        L.append("}")
    if mp11 and fe == "functor":
        owner = {}
        for mn in d.order:
            for sn in d.machines[mn]["states"]: owner.setdefault(sn, mn)
        def qtype(sn):
            if sn in d.machines: return subT(sn)
            if d.machines[owner[sn]]["states"][sn]["kind"] == "exitpt": return "M_%s::exit_pt<%s >" % (owner[sn], sname(owner[sn], sn))   # back-end wrapper of the exit point
            return sname(owner[sn], sn)
        terms = ' << "," << '.join('(t.template is_state_active<%s >() ? "true" : "false")' % qtype(sn) for sn in d.snames if sn != d.root)
        L.append('static std::string gen_isa(Top& t) { std::ostringstream o; o << "[" << %s << "]"; return o.str(); }' % terms)
        # active-state visitor (default mode: active states, recursive): names in visiting order
        L.append('static std::string gen_vis(Top& t) { std::ostringstream o; o << "["; bool first = true; t.visit([&](auto& st) { o << (first ? "" : ",") << "\\"" << SNAME[std::remove_reference_t<decltype(st)>::verif_sid] << "\\""; first = false; }); o << "]"; return o.str(); }')
    elif vis:
        L.append('static std::string gen_isa(Top&) { return "[]"; }')
        # visit_current_states: per region the active state, a submachine state followed by its own active states
        L.append('static std::string gen_vis(Top& t) { VVis v; t.visit_current_states(boost::ref(v)); std::ostringstream o; o << "["; for (size_t k = 0; k < v.seen.size(); k++) o << (k ? "," : "") << "\\"" << (v.seen[k] >= 0 ? SNAME[v.seen[k]] : "?") << "\\""; o << "]"; return o.str(); }')
    else:
        L.append('static std::string gen_isa(Top&) { return "[]"; }')
        L.append('static std::string gen_vis(Top&) { return "[\\"-\\"]"; }')
    L.append("static void gen_stamp(Top& t, int i) { stamp_%s(t, i); }" % d.root)
    L.append('static void gen_dump(Top& t, std::ostream& o) { o << "\\"st\\":{"; dump_st_%s(t, o); o << "},\\"q\\":{"; dump_q_%s(t, o); o << "},\\"dt\\":{"; dump_dt_%s(t, o); o << "},\\"isa\\":" << gen_isa(t) << ",\\"vis\\":" << gen_vis(t) << ",\\"gs\\":{"; %s o << "},\\"fl\\":" << flags_of(t); }'
             % (d.root, d.root, d.root, ("dump_gs_%s(t, o);" % d.root) if vis else ""))
    if mp11:
        L.append("static long gen_drain(Top& t, bool single) { return (long)(single ? t.process_event_pool(1) : t.process_event_pool()); }")
    else:
        L.append("static long gen_drain(Top& t, bool single) { if (single) { if (t.get_message_queue_size() > 0) t.execute_single_queued_event(); } else t.execute_queued_events(); return 0; }")
    L.append("static void gen_register() { %s }" % " ".join("reg_event<%s>();" % e for e in d.evnames))
    L.append('#include "driver_main.hpp"')
    src = "\n".join(L) + "\n"
    if mp11:
        # configuration struct + wrapper must precede the machines: splice after the using-directive
        pol = []
        if fct: pol.append("  using compile_policy = msm::backmp11::favor_compile_time;")
        if fpa: pol.append("  struct compile_policy : msm::backmp11::favor_runtime_speed { using dispatch_strategy = msm::backmp11::dispatch_strategy::function_pointer_array; };")
        pre = ["struct vrt_cfg : msm::backmp11::state_machine_config {"] + pol + ["};",
               "template <class FE, class Cfg> class SMx : public msm::backmp11::state_machine<FE, Cfg, SMx<FE, Cfg> > {",
               "  typedef msm::backmp11::state_machine<FE, Cfg, SMx<FE, Cfg> > base_t;",
               " public:", "  using base_t::base_t;",
               "  size_t pending() const { size_t n = 0; for (auto& e : this->get_event_pool().events) if (!(*e).marked_for_deletion()) n++; return n; }",
               "};"]
        src = src.replace("using namespace vrt; using namespace boost::msm::front;\n",
                          "using namespace vrt; using namespace boost::msm::front;\n" + "\n".join(pre) + "\n", 1)
    return src

def load(path):
    return Def(json.load(open(path)))

def main():
    import argparse
    ap = argparse.ArgumentParser()
    ap.add_argument("corpus"); ap.add_argument("--tla"); ap.add_argument("--cpp"); ap.add_argument("--cfg", default="back")
    a = ap.parse_args()
    d = load(a.corpus)
    if a.tla: open(a.tla, "w").write(emit_tla(d))
    if a.cpp: open(a.cpp, "w").write(emit_cpp(d, a.cfg))

if __name__ == "__main__":
    main()
