// driver_api.hpp -- API calls beyond start/stop/process_event: copies, moves, serialization, queries.
// Included by driver_main.hpp after insts()/inst() are defined.
#pragma once
static long gen_api(const std::string& op, int i, int j, const std::string& fmt) {
    using namespace vrt;
    auto& v = insts();
    if ((int)v.size() <= j) v.resize(j + 1);
    if (op == "copy") {           // copy-construct j from (const) i
        const Top& src = inst(i);
        // back/back11 queue closures stay bound to the object that created them (finding F6): an object that was ever
        // copied from is kept alive until the next reset so that such a closure never runs on freed memory
        static std::vector<std::unique_ptr<Top>> graveyard;
        if (v[j]) graveyard.push_back(std::move(v[j]));
        v[j].reset(new Top(src)); gen_stamp(*v[j], j); return 0;
    }
    if (op == "assign") {         // copy-assign i to (existing or fresh) j
        const Top& src = inst(i);
        Top& dst = inst(j); dst = src; gen_stamp(dst, j); return 0;
    }
    if (op == "move" || op == "moveassign") {
        // backmp11: move construction / move assignment, then the moved-from machine is destroyed.
        // back / back11 have no move operations: the same call is a copy and the source object stays alive (see F6).
        static std::vector<std::unique_ptr<Top>> retired;
        Top& src = inst(i);
#if defined(VCFG_MP11)
        if (op == "move") { if (v[j]) retired.push_back(std::move(v[j])); v[j].reset(new Top(std::move(src))); }
        else { Top& dst = inst(j); dst = std::move(src); }
        gen_stamp(*v[j], j);
        v[i].reset();                                   // a moved-from machine can still be destroyed
#else
        if (op == "move") { if (v[j]) retired.push_back(std::move(v[j])); v[j].reset(new Top(static_cast<const Top&>(src))); }
        else { Top& dst = inst(j); dst = static_cast<const Top&>(src); }
        gen_stamp(*v[j], j);
        // the source stays where it is: closures it created (F6) may still run on it and address it through its slot;
        // the scripts never use a moved-from slot again
#endif
        return 0;
    }
#if defined(VCFG_SER)
    if (op == "saveload") {       // Boost.Serialization round trip into a freshly constructed machine
        std::stringstream ss(std::ios::in | std::ios::out | std::ios::binary);
        const Top& src = inst(i);
        if (fmt == "binary") { boost::archive::binary_oarchive oa(ss); oa << src; }
        else { boost::archive::text_oarchive oa(ss); oa << src; }
        static std::vector<std::unique_ptr<Top>> graveyard2;
        if (v[j]) graveyard2.push_back(std::move(v[j]));
        v[j].reset(new Top());
        if (fmt == "binary") { boost::archive::binary_iarchive ia(ss); ia >> *v[j]; }
        else { boost::archive::text_iarchive ia(ss); ia >> *v[j]; }
        gen_stamp(*v[j], j);
        return 0;
    }
#endif
    (void)fmt;
    return -1;
}
