// verif_rt.hpp -- instrumented runtime shared by every generated driver.
// The generated translation unit contains only type structure (events, states, tables, machines);
// all behaviour (logging, guard values, directives) lives here.
#pragma once
#include <cstdio>
#include <cstdlib>
#include <cstring>
#include <string>
#include <vector>
#include <map>
#include <memory>
#include <sstream>
#include <fstream>
#include <iostream>
#include <stdexcept>
#include <typeinfo>
#include <typeindex>
#include <any>
#include <unistd.h>
#include <boost/any.hpp>
#if defined(VCFG_SER)
#include <boost/archive/text_oarchive.hpp>
#include <boost/archive/text_iarchive.hpp>
#include <boost/archive/binary_oarchive.hpp>
#include <boost/archive/binary_iarchive.hpp>
#include <boost/serialization/array.hpp>
#endif
#include <boost/mpl/vector.hpp>
#include <boost/fusion/mpl.hpp>
#include <boost/fusion/include/mpl.hpp>
#include <boost/msm/front/state_machine_def.hpp>
#include <boost/msm/front/functor_row.hpp>
#include <boost/msm/front/internal_row.hpp>
#include <boost/msm/front/row2.hpp>
#include <boost/msm/front/operator.hpp>
#include <boost/msm/front/history_policies.hpp>
#include <boost/msm/active_state_switching_policies.hpp>
#if defined(VCFG_MP11)
#include <boost/msm/backmp11/state_machine.hpp>
#include <boost/msm/backmp11/favor_compile_time.hpp>
#else
#include <boost/msm/back/state_machine.hpp>
#include <boost/msm/back/favor_compile_time.hpp>
#include <boost/msm/back/queue_container_circular.hpp>
#if defined(VCFG_BACK11)
#include <boost/msm/back11/state_machine.hpp>
#endif
#endif

namespace msm = boost::msm;
namespace mpl = boost::mpl;

namespace vrt {

// ---------------------------------------------------------------- directives / globals
struct Dir { int op = 0; /*0 none 1 throw 2 pe 3 enq*/ bool root = false; int ev = -1; int p = 0; };
static const char* const OPN[] = {"none", "throw", "pe", "enq"};

struct RT {
    static std::ostream*& out() { static std::ostream* o = nullptr; return o; }
    static bool* G() { static bool g[256]; return g; }
    static int& cbn() { static int n = 0; return n; }
    static std::map<int, Dir>& plan() { static std::map<int, Dir> p; return p; }
    // send an event to the root machine of instance inst
    typedef void (*root_send_t)(int inst, int ev, int p, bool enq);
    static root_send_t& root_send() { static root_send_t f = nullptr; return f; }
    static bool& nothrow() { static bool b = false; return b; }  // start()/stop() have no try/catch: throw directives are ignored there
    static long& live() { static long n = 0; return n; }       // live event objects (C20)
    static long& badlife() { static long n = 0; return n; }    // lifetime errors seen (C20)
};

// ---------------------------------------------------------------- events
extern const char* const EVNAME[];     // generated: names of the event types
struct EvTag {};
template <int K> struct EvId { static constexpr int idx = K; };

// plain event: payload p.  Generated code: struct E1 : vrt::Ev<0> { using Ev::Ev; };
template <int K> struct Ev : EvTag {
    static constexpr int idx = K;
    int p = 0;
    int dyn = K;      // index of the most derived event type (set by derived constructors)
    Ev() {}
    explicit Ev(int x) : p(x) {}
};

// shaped events (C20): size / alignment / copy-move traits; non-trivial kinds count live objects and carry a canary
static const unsigned ALIVE = 0xA11FE5u, DEAD = 0xDEADDEADu;
template <int K, int SIZE, int ALIGN, int KIND> struct EvS;      // KIND 0 trivially copyable, 1 non-trivial, 2 non-trivial with a throwing (not noexcept) move, 3 self-referential
template <int K, int SIZE, int ALIGN> struct alignas(ALIGN) EvS<K, SIZE, ALIGN, 0> : EvTag {
    static constexpr int idx = K; static constexpr int NPAD = SIZE > 8 ? SIZE - 8 : 1;
    int p = 0; int dyn = K; unsigned char pad[NPAD];
    EvS() { fill(); } explicit EvS(int x) : p(x) { fill(); }
    void fill() { for (int k = 0; k < NPAD; k++) pad[k] = (unsigned char)(p * 31 + k * 7 + K); }
    bool ok() const { for (int k = 0; k < NPAD; k++) if (pad[k] != (unsigned char)(p * 31 + k * 7 + K)) return false; return true; }
};
template <int K, int SIZE, int ALIGN, int KIND> struct alignas(ALIGN) EvS : EvTag {
    static constexpr int idx = K; static constexpr int NPAD = SIZE > 24 ? SIZE - 24 : 1;
    int p = 0; int dyn = K; unsigned canary = ALIVE; const EvS* self = nullptr; unsigned char pad[NPAD];
    void fill() { for (int k = 0; k < NPAD; k++) pad[k] = (unsigned char)(p * 31 + k * 7 + K); }
    bool ok() const {
        if (canary != ALIVE) return false;
        if (KIND == 3 && self != this) return false;
        for (int k = 0; k < NPAD; k++) if (pad[k] != (unsigned char)(p * 31 + k * 7 + K)) return false;
        return true; }
    EvS() : self(this) { fill(); RT::live()++; }
    explicit EvS(int x) : p(x), self(this) { fill(); RT::live()++; }
    EvS(const EvS& o) : p(o.p), dyn(o.dyn), self(this) { if (!o.ok()) RT::badlife()++; std::memcpy(pad, o.pad, NPAD); RT::live()++; }
    EvS(EvS&& o) noexcept(KIND != 2) : p(o.p), dyn(o.dyn), self(this) { if (!o.ok()) RT::badlife()++; std::memcpy(pad, o.pad, NPAD); RT::live()++; }
    EvS& operator=(const EvS& o) { if (!o.ok() || canary != ALIVE) RT::badlife()++; p = o.p; dyn = o.dyn; std::memcpy(pad, o.pad, NPAD); return *this; }
    EvS& operator=(EvS&& o) noexcept(KIND != 2) { if (!o.ok() || canary != ALIVE) RT::badlife()++; p = o.p; dyn = o.dyn; std::memcpy(pad, o.pad, NPAD); return *this; }
    ~EvS() { if (canary != ALIVE) RT::badlife()++; canary = DEAD; RT::live()--; }
};
template <class E> auto ok_of(const E& e, int) -> decltype(e.ok()) { return e.ok(); }
template <class E> bool ok_of(const E&, long) { return true; }

struct EvDesc { int idx; int p; };   // idx -1: library start event, -2: library stop event, -3: none, -4: unknown

// probes to look inside an 'any'
struct AnyProbe {
    bool (*bany)(const boost::any&, EvDesc&);
    bool (*sany)(const std::any&, EvDesc&);
};
inline std::vector<AnyProbe>& probes() { static std::vector<AnyProbe> v; return v; }
template <class E> bool probe_b(const boost::any& a, EvDesc& d) { if (const E* e = boost::any_cast<E>(&a)) { d.idx = ((E::idx == e->dyn && ok_of(*e, 0)) ? e->dyn : -4); d.p = e->p; return true; } return false; }
template <class E> bool probe_s(const std::any& a, EvDesc& d) { if (const E* e = std::any_cast<E>(&a)) { d.idx = ((E::idx == e->dyn && ok_of(*e, 0)) ? e->dyn : -4); d.p = e->p; return true; } return false; }
template <class E> void reg_event() { probes().push_back(AnyProbe{&probe_b<E>, &probe_s<E>}); }

template <class E, class En = void> struct Describe {
    static EvDesc get(const E&, int dflt) { return EvDesc{dflt, 0}; }
};
template <class E> struct Describe<E, typename std::enable_if<std::is_base_of<EvTag, E>::value>::type> {
    static EvDesc get(const E& e, int) { if (!ok_of(e, 0)) { RT::badlife()++; return EvDesc{-4, e.p}; } return EvDesc{e.dyn, e.p}; }
};
template <> struct Describe<msm::front::none> { static EvDesc get(const msm::front::none&, int) { return EvDesc{-3, 0}; } };
template <> struct Describe<boost::any> {
    static EvDesc get(const boost::any& a, int) { EvDesc d{-4, 0}; for (auto& pr : probes()) if (pr.bany(a, d)) break; return d; }
};
template <> struct Describe<std::any> {
    static EvDesc get(const std::any& a, int) {
        EvDesc d{-4, 0};
        if (std::any_cast<msm::front::none>(&a)) { d.idx = -3; return d; }
        for (auto& pr : probes()) if (pr.sany(a, d)) break;
        return d; }
};
// a user-declared Kleene event type (trigger 'anyu' of the corpus): an 'any' of the back-end's flavour behind a class of our own
#if defined(VCFG_MP11)
typedef std::any UAnyBase;
#else
typedef boost::any UAnyBase;
#endif
struct UAny : UAnyBase {
    UAny() {}
    UAny(const UAnyBase& b) : UAnyBase(b) {}
    template <class T, class = typename std::enable_if<!std::is_base_of<UAnyBase, typename std::decay<T>::type>::value>::type>
    UAny(T const& t) : UAnyBase(t) {}
};
template <> struct Describe<UAny> {
    static EvDesc get(const UAny& a, int d) { return Describe<UAnyBase>::get(static_cast<const UAnyBase&>(a), d); } };
#if !defined(VCFG_MP11)
template <class S, class E> struct Describe<msm::back::direct_entry_event<S, E>> {
    static EvDesc get(const msm::back::direct_entry_event<S, E>& e, int d) { return Describe<E>::get(e.m_event, d); } };
#if defined(VCFG_BACK11)
template <class S, class E> struct Describe<msm::back11::direct_entry_event<S, E>> {
    static EvDesc get(const msm::back11::direct_entry_event<S, E>& e, int d) { return Describe<E>::get(e.m_event, d); } };
#endif
#endif
inline const char* evname(int idx) {
    switch (idx) { case -1: return "start"; case -2: return "stop"; case -3: return "none"; case -4: return "unknown"; default: return EVNAME[idx]; }
}

// ---------------------------------------------------------------- machine / state names (generated tables)
extern const char* const SNAME[];      // state names by global state index
template <class F> struct MInfo;       // generated: name(), and helpers per back-end machine type
template <class FE> struct FEInfo;     // generated: front-end -> machine name (used for own on_entry/on_exit)

template <class F> std::string ids_of(const F& f) {
    std::ostringstream o; o << "[";
#if defined(VCFG_MP11)
    auto& a = f.get_active_state_ids(); for (size_t k = 0; k < a.size(); k++) o << (k ? "," : "") << (int)a[k];
#else
    for (int k = 0; k < F::nr_regions::value; k++) o << (k ? "," : "") << f.current_state()[k];
#endif
    o << "]"; return o.str();
}

// generated: send event number ev with payload p to machine f (process_event or enqueue_event)
template <class F> void send_to(F& f, int ev, int p, bool enq);
// generated: flags of machine f as a JSON array of booleans (one per flag of the definition), OR semantics
template <class F> std::string flags_of(const F& f);

// ---------------------------------------------------------------- the one logging routine
// kind: g a en ex nt xc ; id: guard/action/state name ; sid: state id for nt
template <class E, class F>
void cb(const char* kind, const std::string& id, const E& e, F& f, int dflt_ev, bool withids, bool r, int sid) {
    int n = ++RT::cbn();
    Dir d; auto it = RT::plan().find(n); if (it != RT::plan().end()) d = it->second;
    if (d.op == 1 && (RT::nothrow() || kind[0] == 'x')) d = Dir();   // never throw where the library has no handler
    EvDesc ed = Describe<E>::get(e, dflt_ev);
    std::ostream& o = *RT::out();
    o << "{\"k\":\"" << kind << "\",\"i\":" << f.vinst << ",\"m\":\"" << MInfo<F>::name() << "\",\"id\":\"" << id
      << "\",\"e\":\"" << evname(ed.idx) << "\",\"p\":" << ed.p << ",\"n\":" << n << ",\"r\":" << (r ? "true" : "false")
      << ",\"sid\":" << sid << ",\"ids\":" << (withids ? ids_of(f) : std::string("[]"))
      << ",\"fl\":" << (withids ? flags_of(f) : std::string("[]"))
      << ",\"d\":{\"op\":\"" << OPN[d.op] << "\",\"on\":\"" << (d.root ? "root" : "self") << "\",\"e\":\""
      << (d.ev >= 0 ? EVNAME[d.ev] : "") << "\",\"p\":" << d.p << "}}\n";
    if (d.op == 1) throw std::runtime_error("boom");
    if (d.op == 2 || d.op == 3) {
        if (d.root) RT::root_send()(f.vinst, d.ev, d.p, d.op == 3);
        else send_to(f, d.ev, d.p, d.op == 3);
    }
}

// ---------------------------------------------------------------- behaviours
template <int N> struct Gd {
    template <class E, class F, class S, class T> bool operator()(E const& e, F& f, S&, T&) const {
        bool r = RT::G()[N]; cb("g", "g" + std::to_string(N), e, f, -4, true, r, -1); return r; }
};
template <int N> struct Ac {
    template <class E, class F, class S, class T> void operator()(E const& e, F& f, S&, T&) const {
        cb("a", "a" + std::to_string(N), e, f, -4, true, true, -1); }
};

// serialization opt-in (C16): states / front-ends flagged "ser" in the corpus define do_serialize + serialize
template <bool SER> struct SerOpt { int data = 0; };
template <> struct SerOpt<true> {
    int data = 0;
    typedef int do_serialize;
    template <class Archive> void serialize(Archive& ar, const unsigned int) { ar & data; }
};
// common part of every state: entry / exit logging.  SID = global state index (name table); data counts entries (C15/C16)
template <int SID, bool SER = false> struct Beh : SerOpt<SER> {
    static constexpr int verif_sid = SID;
    template <class E, class F> void on_entry(E const& e, F& f) { this->data++; cb("en", SNAME[SID], e, f, -1, true, true, -1); }
    template <class E, class F> void on_exit(E const& e, F& f) { cb("ex", SNAME[SID], e, f, -2, true, true, -1); }
};

typedef mpl::vector<> NoList;
template <int K> struct Fl {};   // user flags

// base class of every state (C03: get_state_by_id and the active-state visitor of back / back11).  With VCFG_VIS the states are
// polymorphic, accept a visitor that records the visited state's global index, and get_state_by_id hands out this base.
#if defined(VCFG_VIS)
struct VVis { std::vector<int> seen; };
struct VBase {
    typedef msm::back::args<void, VVis&> accept_sig;
    virtual ~VBase() {}
    virtual int vsid() const { return -1; }
    void accept(VVis& v) const { v.seen.push_back(vsid()); }
};
typedef VBase StBase;
#define VRT_VSID(SID) int vsid() const override { return SID; }
#else
typedef msm::front::default_base_state StBase;
#define VRT_VSID(SID)
#endif

template <int SID, class Defers = NoList, class Flags = NoList, class ITab = NoList, bool SER = false>
struct St : msm::front::state<StBase>, Beh<SID, SER> {
    VRT_VSID(SID)
    typedef Defers deferred_events; typedef Flags flag_list;
    typedef ITab internal_transition_table;
    using Beh<SID, SER>::on_entry; using Beh<SID, SER>::on_exit;
};
template <int SID, int ZONE, class Defers = NoList, class Flags = NoList, class ITab = NoList>
struct StX : msm::front::state<StBase>, msm::front::explicit_entry<ZONE>, Beh<SID> {
    VRT_VSID(SID)
    typedef Defers deferred_events; typedef Flags flag_list;
    typedef ITab internal_transition_table;
    using Beh<SID>::on_entry; using Beh<SID>::on_exit;
};
template <int SID, int ZONE>
struct StEP : msm::front::entry_pseudo_state<ZONE, StBase>, Beh<SID> { VRT_VSID(SID) using Beh<SID>::on_entry; using Beh<SID>::on_exit; };
template <int SID, class EVT>
struct StXP : msm::front::exit_pseudo_state<EVT, StBase>, Beh<SID> { VRT_VSID(SID) using Beh<SID>::on_entry; using Beh<SID>::on_exit; };
template <int SID, class Flags = NoList>
struct StT : msm::front::terminate_state<StBase>, Beh<SID> { VRT_VSID(SID) typedef Flags flag_list; using Beh<SID>::on_entry; using Beh<SID>::on_exit; };
template <int SID, class Ends, class Flags = NoList>
struct StI : msm::front::interrupt_state<Ends, StBase>, Beh<SID> { VRT_VSID(SID) typedef Flags flag_list; using Beh<SID>::on_entry; using Beh<SID>::on_exit; };

// front-end base of every machine.  SID = global state index of the machine's own name.
template <class Derived, int SID, bool SER = false>
struct MDef : msm::front::state_machine_def<Derived, StBase>, SerOpt<SER> {
    VRT_VSID(SID)
    static constexpr int verif_sid = SID;
    int vinst = -1;
    template <class E, class F> void on_entry(E const& e, F& f) { this->data++; cb("en", SNAME[SID], e, f, -1, true, true, -1); }
    template <class E, class F> void on_exit(E const& e, F& f) { cb("ex", SNAME[SID], e, f, -2, true, true, -1); }
    template <class F, class E> void no_transition(E const& e, F& f, int state) { cb("nt", "", e, f, -4, false, true, state); }
    template <class F, class E> void exception_caught(E const& e, F& f, std::exception&) { cb("xc", "", e, f, -4, false, true, -1); }
};

} // namespace vrt

namespace boost { namespace msm {
template <> struct is_kleene_event<vrt::UAny> : std::true_type {};
} }
