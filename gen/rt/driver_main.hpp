// driver_main.hpp -- generic script interpreter; included at the end of every generated driver.
// Requires from the generated code:  typedef ... Top;  void gen_stamp(Top&, int);  void gen_dump(Top&, std::ostream&);
//                                     void gen_extra(Top&, std::ostream&) (queues / flags / data)
#pragma once
namespace vrt {

static std::vector<std::unique_ptr<Top>>& insts() { static std::vector<std::unique_ptr<Top>> v; return v; }

inline void root_send_impl(int inst, int ev, int p, bool enq) { send_to(*insts().at(inst), ev, p, enq); }

inline void parse_plan(const std::string& s, std::map<std::string, int>& evidx) {
    RT::plan().clear();
    if (s.empty() || s == "-") return;
    std::stringstream ss(s); std::string item;
    while (std::getline(ss, item, ',')) {
        std::stringstream is(item); std::string f; std::vector<std::string> v;
        while (std::getline(is, f, ':')) v.push_back(f);
        Dir d; int n = std::stoi(v[0]);
        if (v[1] == "throw") d.op = 1;
        else { d.op = v[1] == "pe" ? 2 : 3; d.root = v[2] == "root"; d.ev = evidx.at(v[3]); d.p = std::stoi(v[4]); }
        RT::plan()[n] = d;
    }
}

inline void set_gv(const std::string& gv) {
    bool* g = RT::G(); for (int k = 0; k < 256; k++) g[k] = false;
    if (gv == "-") return;
    for (size_t k = 0; k < gv.size(); k++) g[k + 1] = gv[k] == '1';
}

static std::ofstream* g_ofs = nullptr;
inline void on_terminate() {
    if (g_ofs) { (*g_ofs) << "{\"k\":\"terminated\"}\n"; g_ofs->flush(); }
    _exit(3);
}

inline Top& inst(int k) {
    auto& v = insts();
    if ((int)v.size() <= k) v.resize(k + 1);
    if (!v[k]) { v[k].reset(new Top()); gen_stamp(*v[k], k); }
    return *v[k];
}

} // namespace vrt
#include "driver_api.hpp"
namespace vrt {
inline int run(int argc, char** argv) {
    if (argc < 3) { fprintf(stderr, "usage: driver <script> <trace.ndjson>\n"); return 2; }
    std::ifstream in(argv[1]); std::ofstream out(argv[2]);
    if (!in || !out) { fprintf(stderr, "cannot open files\n"); return 2; }
    g_ofs = &out; RT::out() = &out; RT::root_send() = &root_send_impl;
    std::set_terminate(on_terminate);
    gen_register();
    std::map<std::string, int> evidx; for (int k = 0; k < NEVENTS; k++) evidx[EVNAME[k]] = k;
    std::string line;
    while (std::getline(in, line)) {
        if (line.empty() || line[0] == '#') continue;
        std::stringstream ss(line); std::string op; ss >> op;
        if (op == "reset") { insts().clear(); out << "{\"k\":\"reset\",\"live\":" << RT::live() << ",\"bad\":" << RT::badlife() << "}\n"; continue; }
        int i = 0; ss >> i;
        std::string e = "", gv = "-", pl = "-"; int p = 0, j = -1;
        if (op == "pe") ss >> e >> p >> gv >> pl;
        else if (op == "enq") ss >> e >> p;
        else if (op == "start" || op == "stop") ss >> gv >> pl;
        else if (op == "drain" || op == "drain1") ss >> gv >> pl;
        else if (op == "copy" || op == "assign" || op == "move" || op == "moveassign" || op == "saveload") ss >> j >> e;
        set_gv(gv); parse_plan(pl, evidx); RT::cbn() = 0; RT::nothrow() = (op == "start" || op == "stop");
        out << "{\"k\":\"call\",\"op\":\"" << op << "\",\"i\":" << i << ",\"e\":\"" << e << "\",\"p\":" << p << ",\"j\":" << j << ",\"gv\":[";
        for (size_t k = 0; gv != "-" && k < gv.size(); k++) out << (k ? "," : "") << (gv[k] == '1' ? "true" : "false");
        out << "]}\n";
        long rv = 0; bool escaped = false;
        try {
            if (op == "start") { inst(i).start(); }
            else if (op == "stop") { inst(i).stop(); }
            else if (op == "pe") { rv = gen_process(inst(i), evidx.at(e), p); }
            else if (op == "enq") { send_to(inst(i), evidx.at(e), p, true); }
            else if (op == "drain") { rv = gen_drain(inst(i), false); }
            else if (op == "drain1") { rv = gen_drain(inst(i), true); }
            else if (op == "destroy") { insts().at(i).reset(); }
            else if (op == "query") { }
            else rv = gen_api(op, i, j, e);
        } catch (std::exception& ex) { escaped = true; }
        out << "{\"k\":\"ret\",\"op\":\"" << op << "\",\"i\":" << i << ",\"rv\":" << rv << ",\"esc\":" << (escaped ? "true" : "false");
        int di = (op == "copy" || op == "assign" || op == "move" || op == "moveassign" || op == "saveload") ? j : i;   // state of the object the call produced
        if (op != "destroy" && di >= 0 && (int)insts().size() > di && insts()[di]) { out << ","; gen_dump(*insts()[di], out); }
        else out << ",\"st\":{},\"q\":{},\"fl\":[]";
        out << ",\"live\":" << RT::live() << ",\"bad\":" << RT::badlife() << "}\n";
    }
    insts().clear();
    out << "{\"k\":\"end\",\"live\":" << RT::live() << ",\"bad\":" << RT::badlife() << "}\n";
    out.flush();
    return 0;
}
} // namespace vrt
int main(int argc, char** argv) { return vrt::run(argc, argv); }
