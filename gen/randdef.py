#!/usr/bin/env python3
"""randdef.py -- random machine definitions in the corpus format (see gen.py), from a seed.

The corpus under /verif/corpus is hand-written; 'every machine definition' is approached further by definitions drawn at random from
the feature set every configuration supports: 1-3 orthogonal regions, up to three nesting levels, rows with compound guards and action
sequences, internal rows, conflicting rows for the same (state, event), outer rows on submachine states that compete with inner rows,
state-internal tables, flags, history policies, explicit entries and forks, active-state-switch policies, acyclic completion rows and
(in single-region definitions) deferred events.  Everything is derived from the seed alone, so a failing definition is reproducible
from its name 'rand<seed>'."""
import random, json, sys

POLICIES = ["after_entry", "after_exit", "after_action", "before_transition"]

def make(seed, ext=False):
    r = random.Random(seed * 7907 + 13)
    nev = r.randint(3, 5)
    events = ["E%d" % i for i in range(1, nev + 1)]
    flags = ["F%d" % i for i in range(1, r.randint(0, 2) + 1)]
    ctr = {"g": 0, "a": 0}
    def newg():
        ctr["g"] += 1; return "g%d" % ctr["g"]
    def newa():
        ctr["a"] += 1; return "a%d" % ctr["a"]
    def guard():
        k = r.random()
        if k < 0.35: return ""
        if k < 0.70: return " [%s]" % newg()
        if k < 0.80: return " [!%s]" % newg()
        if k < 0.90: return " [%s && %s]" % (newg(), newg())
        return " [%s || !%s]" % (newg(), newg())
    def acts():
        n = r.choice([0, 1, 1, 1, 2])
        return (" / " + ",".join(newa() for _ in range(n))) if n else ""

    depth = r.choice([1, 2, 2, 2, 3])
    single = r.random() < 0.3            # every machine has one region: deferral may be used
    names = ["Top", "Sub", "Low"][:depth]
    machines = {}
    use_defer = single and r.random() < 0.7
    use_compl = r.random() < 0.35
    for lvl, mn in enumerate(names):
        nreg = 1 if single else r.choice([1, 2, 2, 3] if lvl == 0 else [1, 1, 2])
        pre = mn[0]
        regs = []
        for k in range(nreg):
            ns = r.randint(2, 3)
            regs.append(["%s%d%d" % (pre, k, i) for i in range(ns)])
        # the submachine of the next level replaces one non-initial-or-initial state of one region
        child = names[lvl + 1] if lvl + 1 < depth else None
        if child:
            k = r.randrange(nreg); i = r.randrange(len(regs[k]))
            regs[k][i] = child
        m = {"init": [rg[0] for rg in regs], "states": {}, "table": []}
        reach = []
        if lvl > 0:
            hk = r.choice(["none", "none", "always", "shallow"])
            if hk != "none":
                m["history"] = {"kind": hk, "events": sorted(r.sample(events, r.randint(1, 2))) if hk == "shallow" else []}
        if r.random() < 0.3: m["policy"] = r.choice(POLICIES)
        for k, rg in enumerate(regs):
            for i, s in enumerate(rg):
                st = {}
                if flags and s not in names and r.random() < 0.3: st["flags"] = sorted(r.sample(flags, r.randint(1, len(flags))))
                evs = r.sample(events, r.randint(1, min(3, nev)))
                for e in evs:
                    for _ in range(r.choice([1, 1, 1, 2])):       # sometimes two rows for the same (state, event): priority by position
                        if r.random() < 0.2:
                            m["table"].append("%s %s -%s%s" % (s, e, guard(), acts()))
                        else:
                            m["table"].append("%s %s %s%s%s" % (s, e, r.choice(rg), guard(), acts()))
                if s not in names and r.random() < 0.15:
                    e = r.choice(events)
                    st["itable"] = ["%s%s%s" % (e, guard() or " [%s]" % newg(), acts() or " / %s" % newa())]
                if use_defer and s not in names and r.random() < 0.3:
                    free = [e for e in events if e not in evs and not any(it.startswith(e) for it in st.get("itable", []))]
                    if free: st["defers"] = [r.choice(free)]
                if st: m["states"][s] = st
            for i in range(1, len(rg)):                          # every state reachable inside its region
                reach.append("%s %s %s%s%s" % (rg[r.randrange(i)], r.choice(events), rg[i], guard(), acts()))
                m["table"].append(reach[-1])
            if use_compl and len(rg) >= 2 and r.random() < 0.5:
                cand = [(i, j) for i in range(len(rg)) for j in range(i + 1, len(rg)) if rg[i] not in names]
                if cand:
                    i, j = r.choice(cand)
                    m["table"].append("%s none %s%s%s" % (rg[i], rg[j], guard(), acts()))
        # mpl::vector holds 20 rows without reconfiguring Boost.MPL: keep the rows that make every state reachable, sample the others
        ess = [t for t in m["table"] if t in reach]; opt = [t for t in m["table"] if t not in reach]
        r.shuffle(opt)
        m["table"] = ess + opt[:max(0, 14 - len(ess))]
        r.shuffle(m["table"])
        machines[mn] = m
    # explicit entries / forks from the parent into the child
    for lvl in range(depth - 1):
        pm, cm = machines[names[lvl]], machines[names[lvl + 1]]
        if r.random() < 0.5:
            cname = names[lvl + 1]
            preg = [s for s in pm["init"]]
            # region of the parent that holds the child
            allst = set()
            for row in pm["table"]:
                p = row.split(); allst.add(p[0]);
            sibs = [p.split()[0] for p in pm["table"] if p.split()[2] == cname and p.split()[0] != cname]
            srcs = sorted(set(sibs))
            if not srcs: continue
            nregc = len(cm["init"])
            zones = r.sample(range(nregc), r.randint(1, nregc))
            named = []
            for z in sorted(zones):
                pre = names[lvl + 1][0]
                cands = sorted(set(p.split()[0] for p in cm["table"] if p.split()[0].startswith("%s%d" % (pre, z)) and p.split()[0] != cm["init"][z]))
                cands = [c for c in cands if c not in names]
                if not cands: continue
                x = r.choice(cands)
                cm["states"].setdefault(x, {}).update({"kind": "explicit", "zone": z})
                named.append("%s.%s" % (cname, x))
            if named:
                e = r.choice(events)
                pm["table"].append("%s %s %s%s%s" % (r.choice(srcs), e, "+".join(named), guard(), acts()))
    # entry points and exit points between parent and child (exit points: not back11, see core.supported)
    for lvl in range(depth - 1):
        pm, cm = machines[names[lvl]], machines[names[lvl + 1]]
        cname = names[lvl + 1]; pre = cname[0]
        srcs = sorted(set(p.split()[0] for p in pm["table"] if p.split()[2] == cname and p.split()[0] != cname))
        if srcs and r.random() < 0.3:
            z = r.randrange(len(cm["init"]))
            tg = sorted(set(p.split()[0] for p in cm["table"] if p.split()[0].startswith("%s%d" % (pre, z)) and p.split()[0] not in names))
            if tg:
                e = r.choice(events); ep = "%sEP" % pre
                cm["states"][ep] = {"kind": "entrypt", "zone": z}
                cm["table"].append("%s %s %s%s%s" % (ep, e, r.choice(tg), r.choice(["", "", guard()]), acts()))
                pm["table"].append("%s %s %s:%s%s%s" % (r.choice(srcs), e, cname, ep, guard(), acts()))
        outs = sorted(set(p.split()[2] for p in pm["table"] if p.split()[0] == cname and p.split()[2] not in (cname, "-") and "." not in p.split()[2] and ":" not in p.split()[2]))
        # no exit points in a submachine with history: an exit point left active (outer guard false) would be restored on re-entry and
        # forward its event again - a machine that can loop for ever by design
        if outs and cm.get("history", {"kind": "none"})["kind"] == "none" and r.random() < 0.4:
            for k in range(r.randint(1, 2)):
                z = r.randrange(len(cm["init"]))
                sr = sorted(set(p.split()[0] for p in cm["table"] if p.split()[0].startswith("%s%d" % (pre, z)) and p.split()[0] not in names))
                if not sr: continue
                e = r.choice(events); xp = "%sXP%d" % (pre, k)
                cm["states"][xp] = {"kind": "exitpt", "event": e}
                cm["table"].append("%s %s %s%s%s" % (r.choice(sr), e, xp, guard(), acts()))
                pm["table"].append("%s!%s %s %s%s%s" % (cname, xp, e, r.choice(outs), guard(), acts()))
    # terminate / interrupt states
    if r.random() < 0.25:
        mn = r.choice(names); m = machines[mn]; pre = mn[0]
        z = r.randrange(len(m["init"]))
        sr = sorted(set(p.split()[0] for p in m["table"] if p.split()[0].startswith("%s%d" % (pre, z)) and p.split()[0] not in names))
        if sr:
            if r.random() < 0.4:
                m["states"]["%sT" % pre] = {"kind": "terminate"}
                m["table"].append("%s %s %sT%s%s" % (r.choice(sr), r.choice(events), pre, guard(), acts()))
            else:
                ends = sorted(r.sample(events, r.randint(1, 2)))
                m["states"]["%sI" % pre] = {"kind": "interrupt", "ends": ends}
                m["table"].append("%s %s %sI%s%s" % (r.choice(sr), r.choice(events), pre, guard(), acts()))
                for e in ends:
                    m["table"].append("%sI %s %s%s" % (pre, e, r.choice(sr), acts()))
    if ext:
        # second generation of features (names randx<seed>): drawn from a stream of their own, so that rand<seed> stays what it was.
        # machine-level internal transition tables, Defer actions and base-class triggers
        x = random.Random(seed * 131 + 7)
        for mn in names:
            m = machines[mn]
            # (not for events that also trigger an explicit entry / entry point of this machine: such chains do not compile everywhere)
            # nor for events a state of this machine defers: deferring and handling the same event in one configuration makes back
            # re-offer it for ever (outside the quantifier of C05)
            dfr = set(e for st in m["states"].values() for e in st.get("defers", []))
            free = [e for e in events if e not in dfr and not any(t.split()[1] == e and ("." in t.split()[2] or ":" in t.split()[2]) for t in m["table"])]
            if free and x.random() < 0.35:
                m["itable"] = ["%s%s%s" % (x.choice(free), guard() or " [%s]" % newg(), acts() or " / %s" % newa()) for _ in range(x.randint(1, 2))]
        if single and x.random() < 0.6:
            mn = x.choice(names); m = machines[mn]
            srcs = sorted(set(t.split()[0] for t in m["table"] if t.split()[0] not in names and "!" not in t.split()[0]
                              and m["states"].get(t.split()[0], {}).get("kind", "simple") == "simple"))
            evs = [e for e in events if not any(it.split()[0] == e for it in m.get("itable", []))]
            if srcs and evs:
                m["table"].append("%s %s - [%s] / defer" % (x.choice(srcs), x.choice(evs), newg()))
        pseudo = any(st.get("kind") in ("explicit", "entrypt", "exitpt") for m in machines.values() for st in m["states"].values())
        if x.random() < 0.5 and nev >= 3 and not pseudo:
            # E2 derives from E1, E3 from E2: rows on E1 also react to E2 and E3 occurrences (not with backmp11 favor_compile_time)
            evd = {e: {} for e in events}; evd["E2"] = {"base": "E1"}
            if x.random() < 0.5: evd["E3"] = {"base": "E2"}
            # (the function_pointer_array strategy and favor_compile_time do not offer base-class triggers)
            jx = {"name": "randx%d" % seed, "root": "Top", "events": evd, "machines": machines, "configs": ["back", "mp11"]}
            if flags: jx["flags"] = flags
            return jx
        jx = {"name": "randx%d" % seed, "root": "Top", "events": {e: {} for e in events}, "machines": machines}
        if flags: jx["flags"] = flags
        return jx
    j = {"name": "rand%d" % seed, "root": "Top", "events": {e: {} for e in events}, "machines": machines}
    if flags: j["flags"] = flags
    return j

if __name__ == "__main__":
    print(json.dumps(make(int(sys.argv[1]), ext=len(sys.argv) > 2), indent=1))
