import random, sys
seed=int(sys.argv[1]); nexec=int(sys.argv[2]); out=sys.argv[3]
random.seed(seed)
p=[0]
def newp():
    p[0]+=1; return p[0]
with open(out,'w') as f:
    for x in range(nexec):
        f.write("reset\n"); cg=''.join(random.choice('01') for _ in range(2))
        pl="-"
        if random.random()<0.15:
            n=random.randint(1,4)
            pl=f"{n}:pe:{random.choice(['self','root'])}:{random.choice(['E1','E2','E3','E4','E5','E6'])}:{newp()}"
        f.write(f"start {pl}\n")
        for c in range(random.randint(1,7)):
            e=random.choice(['E1','E1','E2','E2','E3','E4','E5','E5','E6'])
            gv=''.join(random.choice('01') for _ in range(3))+cg
            pl="-"
            if random.random()<0.4:
                n=random.randint(1,9)
                pl=f"{n}:throw" if random.random()<0.4 else f"{n}:pe:{random.choice(['self','root'])}:{random.choice(['E1','E2','E3','E4','E5','E6'])}:{newp()}"
            f.write(f"pe {e} {newp()} {gv} {pl}\n")
