---- MODULE DefHier2c ----
R(s, e, t, g, a) == [src |-> s, ev |-> e, tgt |-> t, g |-> g, a |-> a, int |-> FALSE, ek |-> "plain", named |-> <<>>, xp |-> ""]
RI(s, e, g, a) == [src |-> s, ev |-> e, tgt |-> s, g |-> g, a |-> a, int |-> TRUE, ek |-> "plain", named |-> <<>>, xp |-> ""]
DefHier2c == [ root |-> "Top", events |-> {"E1", "E2", "E3"},
  M |-> [ Top |-> [ init |-> <<"St0">>,
                    kind |-> [St0 |-> "simple", Sub |-> "sub"], region |-> [St0 |-> 1, Sub |-> 1],
                    defers |-> [St0 |-> {}, Sub |-> {}], hist |-> [kind |-> "none", events |-> {}], xpev |-> [St0 |-> ""],
                    table |-> << R("St0","E2","Sub","none","a5"), R("Sub","E1","St0","g3","a6"), R("Sub","E1","St0","g6","a19"),
                                 R("Sub","E2","St0","none","a7"), R("St0","E3","St0","g4","a21"), RI("St0","E3","g5","a22") >>,
                    itab |-> [St0 |-> << RI("St0","E3","g8","a23") >>, Sub |-> <<>>], smtab |-> <<>> ],
          Sub |-> [ init |-> <<"St10","St20">>,
                    kind |-> [St10 |-> "simple", St11 |-> "simple", St20 |-> "simple", St21 |-> "simple"],
                    region |-> [St10 |-> 1, St11 |-> 1, St20 |-> 2, St21 |-> 2],
                    defers |-> [St10 |-> {}, St11 |-> {}, St20 |-> {}, St21 |-> {}], hist |-> [kind |-> "none", events |-> {}], xpev |-> [St10 |-> ""],
                    table |-> << R("St10","E1","St11","g1","a1"), R("St10","E1","St10","g7","a20"), R("St11","E1","St10","none","a2"),
                                 R("St20","E1","St21","g2","a3"), R("St21","E1","St20","none","a4") >>,
                    itab |-> [St10 |-> <<>>, St11 |-> <<>>, St20 |-> <<>>, St21 |-> <<>>], smtab |-> <<>> ] ] ]
====
