SPECIFICATION Spec
CONSTANT Mode = "trace"
CONSTANT BE = "back"
CONSTANT Def <- DefPseudo
CONSTANT MaxCalls = 4
CONSTANT defaultInitValue = defaultInitValue
CONSTRAINT Track
POSTCONDITION Accepted
CHECK_DEADLOCK FALSE
