---- MODULE MCProto3 ----
EXTENDS Proto3, DefPseudo
Track == TLCSet(1, IF l > TLCGet(1) THEN l ELSE TLCGet(1))
Accepted == PrintT(<<"maxl", TLCGet(1), NL>>) /\ TLCGet(1) = NL + 1
====
