SPECIFICATION Spec
CONSTANT Mode = "trace"
CONSTANT BE = "back"
CONSTANT Def <- DefHier2d
CONSTANT MaxCalls = 4
CONSTANT defaultInitValue = defaultInitValue
CONSTRAINT Track
POSTCONDITION Accepted
CHECK_DEADLOCK FALSE
