---- MODULE Goal ----
EXTENDS Naturals, Sequences, TLC, Json, FiniteSets
VARIABLES x, y, path
vars == <<x,y,path>>
Init == TLCSet(2, {}) /\ x = 0 /\ y = 0 /\ path = <<>>
IncX == x < 4 /\ x' = x+1 /\ y' = y /\ path' = Append(path, "IncX")
IncY == y < 4 /\ y' = y+1 /\ x' = x /\ path' = Append(path, "IncY")
Swap == x' = y /\ y' = x /\ path' = Append(path, "Swap")
Next == IncX \/ IncY \/ Swap
Spec == Init /\ [][Next]_vars
View == <<x,y>>
Goals == { <<a,b>> : a \in {3,4}, b \in {0,2} }
Hit == IF <<x,y>> \in Goals /\ <<x,y>> \notin TLCGet(2)
       THEN TLCSet(2, TLCGet(2) \cup {<<x,y>>}) /\ PrintT(ToJson([goal |-> <<x,y>>, path |-> path]))
       ELSE TRUE
====
