---- MODULE MCProto ----
EXTENDS Proto, DefHier2
Track == TLCSet(1, IF l > TLCGet(1) THEN l ELSE TLCGet(1))
Accepted == PrintT(<<"maxl", TLCGet(1), NL>>) /\ TLCGet(1) = NL + 1
NoEscape == (pc = "M0") => ~exc
NotWedged == (pc = "M0") => \A mm \in Machines : ~processing[mm]
====
