---- MODULE Props4 ----
EXTENDS Proto4, DefHier2c, SequencesExt
\* ------------------------------------------------------------------ C01, declaratively
\* candidate qrows of state qs of machine m for event type qet, highest priority first:
\* the state'qs own internal table (last declared first), then the main table (last declared first)
PrioRows(mm, qs, qet) ==
   LET qit == { kk \in 1..Len(MD(mm).itab[qs]) : MD(mm).itab[qs][kk].ev = qet }
       qtb == { kk \in 1..Len(MD(mm).table) : MD(mm).table[kk].src = qs /\ MD(mm).table[kk].ev = qet }
       qits == SetToSortSeq(qit, LAMBDA a, b : a > b)
       qtbs == SetToSortSeq(qtb, LAMBDA a, b : a > b)
   IN [kk \in 1..Len(qits) |-> [g |-> MD(mm).itab[qs][qits[kk]].g, idx |-> qits[kk], main |-> FALSE]]
      \o [kk \in 1..Len(qtbs) |-> [g |-> MD(mm).table[qtbs[kk]].g, idx |-> qtbs[kk], main |-> TRUE]]
\* position of the dispend matching the disp at qi-1 (scan starts at qj = qi), 0 if the segment was aborted
RECURSIVE MatchEnd(_, _, _)
MatchEnd(qo, qj, qdepth) == IF qj > Len(qo) THEN 0
    ELSE IF qo[qj].k = "disp" THEN MatchEnd(qo, qj+1, qdepth+1)
    ELSE IF qo[qj].k = "dispend" THEN (IF qdepth = 0 THEN qj ELSE MatchEnd(qo, qj+1, qdepth-1))
    ELSE MatchEnd(qo, qj+1, qdepth)
\* indices strictly between qi and qj that are not inside a nested segment
RECURSIVE DirectIdx(_, _, _, _)
DirectIdx(qo, qk, qj, qacc) == IF qk >= qj THEN qacc
    ELSE IF qo[qk].k = "disp" THEN DirectIdx(qo, MatchEnd(qo, qk+1, 0) + 1, qj, Append(qacc, qk))
    ELSE DirectIdx(qo, qk+1, qj, Append(qacc, qk))
\* walk the priority list against the observed guard evaluations
RECURSIVE Walk(_, _, _, _)
Walk(qrows, qgi, qG, qGR) ==
   IF qrows = <<>> THEN [ok |-> qgi = Len(qG) + 1, taken |-> [idx |-> 0, main |-> TRUE]]
   ELSE LET qrw == Head(qrows) IN
        IF qrw.g = "none" THEN [ok |-> qgi = Len(qG) + 1, taken |-> [idx |-> qrw.idx, main |-> qrw.main]]
        ELSE IF qgi > Len(qG) THEN [ok |-> FALSE, taken |-> [idx |-> 0, main |-> TRUE]]
        ELSE IF qG[qgi] # qrw.g THEN [ok |-> FALSE, taken |-> [idx |-> 0, main |-> TRUE]]
        ELSE IF qGR[qgi] THEN [ok |-> qgi = Len(qG), taken |-> [idx |-> qrw.idx, main |-> qrw.main]]
        ELSE Walk(Tail(qrows), qgi + 1, qG, qGR)
SegOK(qo, qi) ==
   LET qj   == MatchEnd(qo, qi+1, 0)
       mm  == qo[qi].m
       qdir == DirectIdx(qo, qi+1, qj, <<>>)
       qkids == SelectSeq(qdir, LAMBDA kx : qo[kx].k = "disp")
       innerConsumed == \E q \in 1..Len(qkids) : Consumed(qo[MatchEnd(qo, qkids[q]+1, 0)].p)
       qgidx == SelectSeq(qdir, LAMBDA kx : qo[kx].k = "g" /\ qo[kx].m = mm)
       qG    == [q \in 1..Len(qgidx) |-> qo[qgidx[q]].id]
       qGR   == [q \in 1..Len(qgidx) |-> qo[qgidx[q]].r]
       qtakes == SelectSeq(qdir, LAMBDA kx : qo[kx].k = "take" /\ qo[kx].m = mm)
       qw    == Walk(PrioRows(mm, qo[qi].id, qo[qi].e), 1, qG, qGR)
   IN IF qj = 0 THEN TRUE
      ELSE IF innerConsumed THEN qG = <<>> /\ qtakes = <<>>
      ELSE /\ qw.ok
           /\ IF qw.taken.idx = 0 THEN qtakes = <<>>
              ELSE Len(qtakes) = 1 /\ qo[qtakes[1]].p = qw.taken.idx /\ qo[qtakes[1]].r = qw.taken.main
P_C01 == (pc = "M0") => \A qi \in 1..Len(obs) : (obs[qi].k = "disp") => SegOK(obs, qi)
\* ------------------------------------------------------------------ edge cover emission


View == <<pc, active, running, processing, mq, dq, curseq, pool, seqcnt, hist, exc, ret, l, cbn, ncalls, nextp, budget, obs, wasreset, stack, kind, m_, id, occ_, d, gres, m_E, s_, occ_E, r_, m_Ex, s, occ_Ex, reg_, ek, named, r_E, useHist, m_H, newseq, notonly, hd, m_D, e, pk, cur, m_C, st, reg, m_R, r_R, c, occ_R, row, res, m_Ch, r, cands, occ_C, i, acc, stop, m_Do, occ_D, direct, r_D, result, m, occ, src, handled, r_S>>
Emit == (pc = "M1") => PrintT(ToJson([path |-> path]))
====
