SPECIFICATION Spec
CONSTANT Mode = "mc"
CONSTANT BE = "back"
CONSTANT Def <- DefHier2c
CONSTANT MaxCalls = 4
CONSTANT F1fixed = TRUE
CONSTANT Budget = 0
CONSTANT defaultInitValue = defaultInitValue
INVARIANT P_C01
CHECK_DEADLOCK FALSE
