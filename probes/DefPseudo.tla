---- MODULE DefPseudo ----
R(s, e, t, g, a) == [src |-> s, ev |-> e, tgt |-> t, g |-> g, a |-> a, int |-> FALSE, ek |-> "plain", named |-> <<>>, xp |-> ""]
RX(s, e, t, g, a, ek, named) == [src |-> s, ev |-> e, tgt |-> t, g |-> g, a |-> a, int |-> FALSE, ek |-> ek, named |-> named, xp |-> ""]
RP(s, xp, e, t, g, a) == [src |-> s, ev |-> e, tgt |-> t, g |-> g, a |-> a, int |-> FALSE, ek |-> "plain", named |-> <<>>, xp |-> xp]
DefPseudo == [ root |-> "Top", events |-> {"E1", "E2", "E3", "E4", "E5", "E6"},
  M |-> [ Top |-> [ init |-> <<"St0">>,
                    kind |-> [St0 |-> "simple", Sub |-> "sub", St1 |-> "simple"],
                    region |-> [St0 |-> 1, Sub |-> 1, St1 |-> 1],
                    defers |-> [St0 |-> {}, Sub |-> {}, St1 |-> {}],
                    hist |-> [kind |-> "none", events |-> {}],
                    table |-> << R("St0","E2","Sub","none","a5"), R("Sub","E2","St0","none","a7"),
                                 RX("St0","E3","Sub","none","a15","explicit",<<"St11">>),
                                 RX("St0","E4","Sub","none","a16","explicit",<<"St11","St21">>),
                                 RX("St0","E6","Sub","none","a17","entrypt",<<"EP">>),
                                 RP("Sub","XP","E5","St1","none","a18"),
                                 R("St1","E2","St0","none","none") >>,
                    itab |-> [St0 |-> <<>>, Sub |-> <<>>, St1 |-> <<>>], smtab |-> <<>> ],
          Sub |-> [ init |-> <<"St10","St20">>,
                    kind |-> [St10 |-> "simple", St11 |-> "simple", St20 |-> "simple", St21 |-> "simple", EP |-> "simple", XP |-> "exitpt"],
                    region |-> [St10 |-> 1, St11 |-> 1, St20 |-> 2, St21 |-> 2, EP |-> 1, XP |-> 1],
                    defers |-> [St10 |-> {}, St11 |-> {}, St20 |-> {}, St21 |-> {}, EP |-> {}, XP |-> {}],
                    hist |-> [kind |-> "shallow", events |-> {"E2","E3"}], xpev |-> [XP |-> "E5"],
                    table |-> << R("St10","E1","St11","none","none"), R("St11","E1","St10","none","none"),
                                 R("St20","E1","St21","g2","none"), R("St21","E1","St20","none","none"),
                                 R("EP","E6","St11","none","a13"), R("St11","E5","XP","none","a14") >>,
                    itab |-> [St10 |-> <<>>, St11 |-> <<>>, St20 |-> <<>>, St21 |-> <<>>, EP |-> <<>>, XP |-> <<>>], smtab |-> <<>> ] ] ]
====
