SPECIFICATION Spec
VIEW View
CONSTRAINT Hit
CHECK_DEADLOCK FALSE
