---- MODULE DefHier2 ----
R(s, e, t, g, a) == [src |-> s, ev |-> e, tgt |-> t, g |-> g, a |-> a, int |-> FALSE]
DefHier2 == [ root |-> "Top", events |-> {"E1", "E2", "E3"},
  M |-> [ Top |-> [ init |-> <<"St0">>,
                    kind |-> [St0 |-> "simple", Sub |-> "sub"],
                    table |-> << R("St0","E2","Sub","none","a5"), R("Sub","E1","St0","g3","a6"), R("Sub","E2","St0","none","a7") >>,
                    itab |-> [St0 |-> <<>>, Sub |-> <<>>], smtab |-> <<>> ],
          Sub |-> [ init |-> <<"St10","St20">>,
                    kind |-> [St10 |-> "simple", St11 |-> "simple", St20 |-> "simple", St21 |-> "simple"],
                    table |-> << R("St10","E1","St11","g1","a1"), R("St11","E1","St10","none","a2"),
                                 R("St20","E1","St21","g2","a3"), R("St21","E1","St20","none","a4") >>,
                    itab |-> [St10 |-> <<>>, St11 |-> <<>>, St20 |-> <<>>, St21 |-> <<>>], smtab |-> <<>> ] ] ]
====
