SPECIFICATION Spec
CONSTANT Mode = "mc"
CONSTANT BE = "back"
CONSTANT Def <- DefHier2c
CONSTANT MaxCalls = 4
CONSTANT F1fixed = TRUE
CONSTANT Budget = 1
CONSTANT defaultInitValue = defaultInitValue
VIEW View
CONSTRAINT Emit
CHECK_DEADLOCK FALSE
