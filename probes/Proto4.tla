---- MODULE Proto4 ----
EXTENDS Integers, Sequences, TLC, Json, IOUtils, FiniteSets
CONSTANTS Mode, BE, Def, MaxCalls, F1fixed, Budget

Trace == IF Mode = "trace" THEN ndJsonDeserialize(IOEnv.TRACE) ELSE <<>>
NL == Len(Trace)

Machines == DOMAIN Def.M
MD(m) == Def.M[m]
NReg(m) == Len(MD(m).init)
IsSub(m, s) == MD(m).kind[s] = "sub"
NoneOcc == [t |-> "none", p |-> 0]

\* ---- reversed sequence of indices i in 1..Len(sq) with P(sq[i])
RevIdx(sq, P(_)) == LET n == Len(sq)
                        RECURSIVE go(_, _)
                        go(i, acc) == IF i = 0 THEN acc ELSE go(i-1, IF P(sq[i]) THEN Append(acc, i) ELSE acc)
                    IN go(n, <<>>)
\* candidates for state s of machine m on event type et, in priority order
Cands(m, s, et) ==
   LET fwd == IF IsSub(m, s) THEN << [c |-> "fwd", sub |-> s] >> ELSE <<>>
       it  == MD(m).itab[s]
       itc == [k \in 1..Len(RevIdx(it, LAMBDA r : r.ev = et)) |->
                 [c |-> "row", tab |-> "itab", st |-> s, idx |-> RevIdx(it, LAMBDA r : r.ev = et)[k]]]
       tb  == MD(m).table
       tbi == RevIdx(tb, LAMBDA r : r.src = s /\ r.ev = et)
       tbc == [k \in 1..Len(tbi) |-> [c |-> "row", tab |-> "table", st |-> s, idx |-> tbi[k]]]
   IN fwd \o itc \o tbc
SmCands(m, et) == LET tb == MD(m).smtab
                      ix == RevIdx(tb, LAMBDA r : r.ev = et)
                  IN [k \in 1..Len(ix) |-> [c |-> "row", tab |-> "smtab", st |-> m, idx |-> ix[k]]]
RowOf(m, c) == IF c.tab = "table" THEN MD(m).table[c.idx]
               ELSE IF c.tab = "itab" THEN MD(m).itab[c.st][c.idx] ELSE MD(m).smtab[c.idx]

\* state ids: documented numbering (sources top-down, targets top-down, remaining initial states)
RECURSIVE AddNew(_, _)
AddNew(acc, xs) == IF xs = <<>> THEN acc
                   ELSE AddNew(IF \E i \in 1..Len(acc) : acc[i] = Head(xs) THEN acc ELSE Append(acc, Head(xs)), Tail(xs))
IdSeq(m) == LET tb == MD(m).table
                srcs == [i \in 1..Len(tb) |-> tb[i].src]
                tgts == [i \in 1..Len(tb) |-> tb[i].tgt]
            IN AddNew(AddNew(AddNew(<<>>, srcs), tgts), MD(m).init)
IdOf(m, s) == (CHOOSE i \in 1..Len(IdSeq(m)) : IdSeq(m)[i] = s) - 1
Ids(m, act) == [r \in 1..Len(act) |-> IdOf(m, act[r])]

HasBit(x, b) == (x \div b) % 2 = 1
Or(x, y) == LET bit(b) == IF HasBit(x, b) \/ HasBit(y, b) THEN b ELSE 0 IN bit(1) + bit(2) + bit(4)
Consumed(x) == HasBit(x, 1) \/ HasBit(x, 4)
Mask5(x) == (IF HasBit(x,1) THEN 1 ELSE 0) + (IF HasBit(x,4) THEN 4 ELSE 0)

HasCompl(m) == \E k \in 1..Len(MD(m).table) : MD(m).table[k].ev = "none"
StateHasCompl(m, s) == \E k \in 1..Len(MD(m).table) : MD(m).table[k].ev = "none" /\ MD(m).table[k].src = s
Defers(m, s, et) == et \in MD(m).defers[s]
\* stable sort of a sequence of records by field seq, descending
RECURSIVE InsDesc(_, _)
InsDesc(sorted, x) == IF sorted = <<>> THEN <<x>>
                      ELSE IF Head(sorted).seq >= x.seq THEN <<Head(sorted)>> \o InsDesc(Tail(sorted), x)
                      ELSE <<x>> \o sorted
RECURSIVE SortDesc(_)
SortDesc(sq) == IF sq = <<>> THEN <<>> ELSE InsDesc(SortDesc(SubSeq(sq, 1, Len(sq)-1)), sq[Len(sq)])
HistKind(m) == MD(m).hist.kind
HistEvents(m) == MD(m).hist.events
\* region (1-based) of an explicit-entry / entry-point state of machine m
RegOf(m, st) == MD(m).region[st]
IsExitPt(m, st) == MD(m).kind[st] = "exitpt"
EventTypes == Def.events
Directives == {[op |-> "none"]} \cup {[op |-> "throw"]} \cup
              {[op |-> "pe", on |-> o, e |-> e] : o \in {"self", "root"}, e \in EventTypes}

(* --algorithm Proto4 {
variables
   active = [mm \in Machines |-> MD(mm).init],
   running = [mm \in Machines |-> FALSE],
   processing = [mm \in Machines |-> FALSE],
   mq = [mm \in Machines |-> <<>>],        \* back: message queue of [occ]
   dq = [mm \in Machines |-> <<>>],        \* back: deferred queue of [occ, seq]
   curseq = [mm \in Machines |-> 0],
   pool = [mm \in Machines |-> <<>>],      \* mp11: [kind, occ, seq, marked, st, reg]
   seqcnt = [mm \in Machines |-> 0],
   hist = [mm \in Machines |-> MD(mm).init],
   exc = FALSE, ret = 0, l = 1, cbn = 0, ncalls = 0, nextp = 1, budget = 0,
   obs = <<>>, wasreset = FALSE, path = <<>>;

define {
  CurLine == Trace[l]
  HasLine == l <= NL
  \* mp11: some active state (recursively) defers this event type
  RECURSIVE IsDeferredM(_, _)
  IsDeferredM(mm, et) == running[mm] /\ \E rr \in 1..NReg(mm) :
        LET st == active[mm][rr] IN Defers(mm, st, et) \/ (IsSub(mm, st) /\ IsDeferredM(st, et))
}

\* ---------------------------------------------------------------- callbacks
procedure Callback(kind, m, id, occ)
  variables d = [op |-> "none"], gres = TRUE;
{
CB1: cbn := cbn + 1;
     if (Mode = "trace") {
        await HasLine /\ CurLine.k = kind /\ CurLine.m = m /\ CurLine.id = id
              /\ CurLine.e = occ.t /\ CurLine.p = occ.p /\ CurLine.n = cbn
              /\ (IF kind \in {"nt", "xc"} THEN TRUE ELSE CurLine.ids = Ids(m, active[m]));
        d := CurLine.d;
        gres := IF kind = "g" THEN CurLine.r ELSE TRUE;
        l := l + 1;
     } else {
        with (dd \in IF budget > 0 THEN Directives ELSE {[op |-> "none"]}, b \in IF kind = "g" THEN BOOLEAN ELSE {TRUE}) {
           d := dd; gres := b;
           path := Append(path, [cb |-> cbn + 1, d |-> dd, g |-> b]);
           if (dd.op # "none") { budget := budget - 1; };
        };
     };
     obs := Append(obs, [k |-> kind, m |-> m, id |-> id, e |-> occ.t, p |-> occ.p, r |-> gres]);
CB2: if (d.op = "throw") {
        exc := TRUE;
     } else if (d.op = "pe") {
        nextp := nextp + 1;
        call PEI(IF d.on = "root" THEN Def.root ELSE m, [t |-> d.e, p |-> IF Mode = "trace" THEN d.p ELSE nextp], "direct");
     };
CB3: ret := IF gres THEN 1 ELSE 0;
CB4: return;
}

\* ---------------------------------------------------------------- entry / exit
procedure ExecExit(m, s, occ)
  variables r = 1;
{
X1: if (~IsSub(m, s)) {
       call Callback("ex", m, s, occ);
X1r:   return;
    };
X2: r := 1;
X3: while (r <= NReg(s)) {
       call ExecExit(s, active[s][r], occ);
X4:    if (exc) { return; } else { r := r + 1; };
    };
X5: call Callback("ex", m, s, occ);
X6: if (~exc) {
       if (HistKind(s) # "none") { hist[s] := active[s]; };
       if (BE = "back" /\ ~(HistKind(s) = "always" \/ (HistKind(s) = "shallow" /\ occ.t \in HistEvents(s)))) { dq[s] := <<>>; };
    };
X7: return;
}

\* entry of a state; ek = entry kind for submachines: "plain", "explicit" (also fork), "entrypt"; named = named substates
\* for mp11 followed by the completion push (on_state_entry_completed)
procedure ExecEntry(m, s, occ, reg, ek, named)
  variables r = 1, useHist = FALSE;
{
N1: if (~IsSub(m, s)) {
       call Callback("en", m, s, occ);
N1r:   if (~exc /\ IsExitPt(m, s) /\ (IF BE = "back" THEN occ.t = MD(m).xpev[s] ELSE ek # "restore")) {
          \* exit pseudo state: forward the event to the root machine
          \* (back: whenever the state is entered with a convertible event; mp11: only as a transition target)
          if (BE = "back") { call PEI(Def.root, occ, "direct"); }
          else { pool[Def.root] := Append(pool[Def.root], [kind |-> "ev", occ |-> occ, seq |-> seqcnt[Def.root] - 1, marked |-> FALSE, st |-> "", reg |-> 1]); };
       } else if (~exc /\ BE = "mp11" /\ StateHasCompl(m, s)) {
          pool[m] := <<[kind |-> "compl", occ |-> NoneOcc, seq |-> 0, marked |-> FALSE, st |-> s, reg |-> reg]>> \o pool[m];
       };
N1s:   return;
    };
N2: useHist := HistKind(s) = "always" \/ (HistKind(s) = "shallow" /\ occ.t \in HistEvents(s));
    processing[s] := TRUE;
    running[s] := TRUE;
    if (BE = "back") {
       \* regions from history / initial, then the named ones are overwritten
       active[s] := [rr \in 1..NReg(s) |->
                        IF \E nn \in 1..Len(named) : RegOf(s, named[nn]) = rr
                        THEN named[CHOOSE nn \in 1..Len(named) : RegOf(s, named[nn]) = rr]
                        ELSE IF useHist THEN hist[s][rr] ELSE MD(s).init[rr]];
    };
    call Callback("en", m, s, occ);
N3: if (exc) { return; }
    else {
       r := 1;
       if (BE = "mp11") {
          active[s] := [rr \in 1..NReg(s) |->
                        IF \E nn \in 1..Len(named) : RegOf(s, named[nn]) = rr
                        THEN named[CHOOSE nn \in 1..Len(named) : RegOf(s, named[nn]) = rr]
                        ELSE IF useHist THEN hist[s][rr] ELSE MD(s).init[rr]];
          if (Len(named) # NReg(s) /\ ~useHist) { pool[s] := <<>>; };
       };
    };
N4: while (r <= NReg(s)) {
       \* mp11 with all regions named: entries in the order of the named list; otherwise region order
       call ExecEntry(s, IF BE = "mp11" /\ Len(named) = NReg(s) THEN named[r] ELSE active[s][r], occ,
                      IF BE = "mp11" /\ Len(named) = NReg(s) THEN RegOf(s, named[r]) ELSE r, "restore", <<>>);
N5:    if (exc) { return; } else { r := r + 1; };
    };
N6: if (BE = "back" /\ HasCompl(s)) { call PEI(s, NoneOcc, "direct"); };      \* queued: processing is TRUE
N6b: if (exc) { return; } else if (BE = "back" /\ ek = "entrypt") { call PEI(s, occ, "direct"); };   \* queued as well
N7: if (exc) { return; } else { processing[s] := FALSE; };
N8: if (BE = "back") { call HandleDeferred(s, TRUE); };
N9: if (exc) { return; } else { call Drain(s); };
N9b: if (exc) { return; } else if (BE = "mp11" /\ ek = "entrypt") { call PEI(s, occ, "direct"); };
N10: return;
}

\* back: do_handle_deferred
procedure HandleDeferred(m, newseq)
  variables notonly = FALSE, hd = [occ |-> NoneOcc, seq |-> 0];
{
H0: if (newseq) { curseq[m] := curseq[m] + 1; };
H1: notonly := FALSE;
H2: while (dq[m] # <<>> /\ Head(dq[m]).seq = curseq[m] /\ ~notonly) {
       hd := Head(dq[m]); dq[m] := Tail(dq[m]);
       call PEI(m, hd.occ, "deferred");
H3:    if (exc) { return; } else if (ret # 0 /\ ret # 4) { notonly := TRUE; };
    };
H4: if (notonly) {
       dq[m] := [k \in 1..Len(dq[m]) |-> [SortDesc(dq[m])[k] EXCEPT !.seq = curseq[m] + 1]];
       call HandleDeferred(m, TRUE);
    };
H5: return;
}

\* drain: back = message queue; mp11 = event pool (do_process_event_pool)
procedure Drain(m)
  variables e = [occ |-> NoneOcc], pk = 1, cur = [kind |-> "ev", occ |-> NoneOcc, seq |-> 0, marked |-> FALSE, st |-> "", reg |-> 1];
{
Q1: if (BE = "back") {
Q2:    while (mq[m] # <<>>) {
          e := Head(mq[m]); mq[m] := Tail(mq[m]);
          call PEI(m, e.occ, "queue");
Q3:       if (exc) { return; };
       };
    } else {
Q4:    if (pool[m] # <<>> /\ ~processing[m]) {
          pk := 1;
Q5:       while (pk <= Len(pool[m])) {
             cur := pool[m][pk];
             if (cur.marked) {
                pool[m] := SubSeq(pool[m], 1, pk-1) \o SubSeq(pool[m], pk+1, Len(pool[m]));
             } else if (cur.kind = "ev" /\ (cur.seq = seqcnt[m] \/ IsDeferredM(m, cur.occ.t))) {
                pk := pk + 1;
             } else {
                pool[m][pk].marked := TRUE;
                if (cur.kind = "ev") { call PEI(m, cur.occ, "pool"); }
                else { call ComplM(m, cur.st, cur.reg); };
Q6:             if (exc) { return; }
                else {
                   pk := 1;
                   if (~HasBit(ret, 4)) { seqcnt[m] := seqcnt[m] + 1; };
                };
             };
          };
       };
    };
Q7: return;
}

\* mp11: process_completion_transition for state st of region reg
procedure ComplM(m, st, reg)
{
K1: processing[m] := TRUE;
    call Chain(m, reg, [k \in 1..Len(RevIdx(MD(m).table, LAMBDA rw : rw.src = st /\ rw.ev = "none")) |->
                            [c |-> "row", tab |-> "table", st |-> st, idx |-> RevIdx(MD(m).table, LAMBDA rw : rw.src = st /\ rw.ev = "none")[k]]], NoneOcc);
K2: if (exc) {
       exc := FALSE; call Callback("xc", m, "", NoneOcc);
K2b:   if (~exc) { ret := 0; };
    };
K3: if (exc) { return; } else { processing[m] := FALSE; };
K4: return;
}

\* ---------------------------------------------------------------- one row
procedure RowExec(m, r, c, occ)
  variables row = [src |-> "", ev |-> "", tgt |-> "", g |-> "none", a |-> "none", int |-> FALSE, ek |-> "plain", named |-> <<>>, xp |-> ""], res = 1;
{
R0: row := RowOf(m, c);
R0b: if (BE = "back" /\ row.xp # "" /\ ~(\E rr \in 1..NReg(row.src) : active[row.src][rr] = row.xp)) { ret := 0; goto R9; };
R1: if (row.g # "none") {
       call Callback("g", m, row.g, occ);
R2:    if (exc) { return; } else if (ret = 0) { ret := 2; goto R9; };
    };
R3: obs := Append(obs, [k |-> "take", m |-> m, id |-> row.g, e |-> occ.t, p |-> c.idx, r |-> (c.tab = "table")]);
R3x: if (row.int) {
       if (row.a # "none") { call Callback("a", m, row.a, occ); };
R3b:   if (~exc) { ret := 1; };
       goto R9;
    };
R4: call ExecExit(m, row.src, occ);
R5: if (exc) { return; } else if (row.a # "none") { call Callback("a", m, row.a, occ); };
R6: if (exc) { return; } else { call ExecEntry(m, row.tgt, occ, r, row.ek, row.named); };
R7: if (exc) { return; } else { active[m][r] := row.tgt; ret := 1; };
R9: return;
}

\* ---------------------------------------------------------------- chain for one region / sm-internal table
procedure Chain(m, r, cands, occ)
  variables i = 1, acc = 0, stop = FALSE;
{
C0: i := 1; acc := 0; stop := FALSE;
C1: while (i <= Len(cands) /\ ~stop) {
       if (cands[i].c = "fwd") {
          call PEI(cands[i].sub, occ, "sub");
       } else {
          call RowExec(m, r, cands[i], occ);
       };
C2:    if (exc) { return; }
       else {
          with (na = Or(acc, ret)) {
             if (IF BE = "back" /\ ~F1fixed THEN ret \in {1, 4} ELSE Consumed(na)) { stop := TRUE; acc := IF Len(cands) > 1 \/ BE = "back" THEN Mask5(na) ELSE na; }
             else { acc := na; };
          };
          i := i + 1;
       };
    };
C3: ret := acc;
C4: return;
}

procedure DoProcess(m, occ, direct)
  variables r = 1, result = 0;
{
D0: r := 1; result := 0;
D1: while (r <= NReg(m)) {
       if (BE = "back" /\ Cands(m, active[m][r], occ.t) = <<>> /\ Defers(m, active[m][r], occ.t)) {
          \* defer_transition default cell
          dq[m] := Append(dq[m], [occ |-> occ, seq |-> curseq[m] + 1]);
          ret := 4;
       } else {
          obs := Append(obs, [k |-> "disp", m |-> m, id |-> active[m][r], e |-> occ.t, p |-> r, r |-> TRUE]);
          call Chain(m, r, Cands(m, active[m][r], occ.t), occ);
       };
D2:    if (exc) { return; } else { obs := Append(obs, [k |-> "dispend", m |-> m, id |-> "", e |-> occ.t, p |-> ret, r |-> TRUE]); result := Or(result, ret); r := r + 1; };
    };
D3: if ((IF BE = "back" THEN ~HasBit(result, 1) ELSE ~Consumed(result)) /\ SmCands(m, occ.t) # <<>>) {
       call Chain(m, 1, SmCands(m, occ.t), occ);
D4:    if (exc) { return; } else { result := Or(result, ret); };
    };
D5: r := 1;
D6: while (result = 0 /\ direct /\ occ.t # "none" /\ r <= NReg(m)) {
       call Callback("nt", m, active[m][r], occ);
D7:    if (exc) { return; } else { r := r + 1; };
    };
D8: ret := result;
D9: return;
}

\* ---------------------------------------------------------------- process_event_internal
procedure PEI(m, occ, src)
  variables handled = 0;
{
P1: if (BE = "back") {
       if (processing[m]) { mq[m] := Append(mq[m], [occ |-> occ]); ret := 1; return; };
    } else if (src # "pool") {
       if (processing[m] \/ (src # "sub" /\ IsDeferredM(m, occ.t))) {
          pool[m] := Append(pool[m], [kind |-> "ev", occ |-> occ, seq |-> seqcnt[m] - 1, marked |-> FALSE, st |-> "", reg |-> 1]);
          ret := 4; return;
       } else { seqcnt[m] := seqcnt[m] + 1; };
    };
P2: processing[m] := TRUE;
    call DoProcess(m, occ, IF BE = "back" THEN (m = Def.root \/ src # "sub") ELSE src # "sub");
P3: if (exc) {
       exc := FALSE; handled := 0;
       call Callback("xc", m, "", occ);
    } else { handled := ret; };
P4: if (exc) { return; } else { processing[m] := FALSE; };
P5: if (BE = "back" /\ HasCompl(m) /\ HasBit(handled, 1)) { call PEI(m, NoneOcc, src); };
P6: if (exc) { return; }
    else if (BE = "back" /\ src # "deferred") { call HandleDeferred(m, HasBit(handled, 1)); };
P7: if (exc) { return; }
    else if (BE = "back" /\ src \notin {"deferred", "queue"}) { call Drain(m); }
    else if (BE = "mp11" /\ src # "pool") { call Drain(m); };
P8: if (exc) { return; } else { ret := handled; };
P9: return;
}

procedure StartEntries()
  variables r = 1;
{
S1: call Callback("en", Def.root, Def.root, [t |-> "start", p |-> 0]);
S2: r := 1; if (BE = "mp11") { pool[Def.root] := <<>>; };
S3: while (r <= NReg(Def.root)) {
       call ExecEntry(Def.root, MD(Def.root).init[r], [t |-> "start", p |-> 0], r, "plain", <<>>);
S4:    r := r + 1;
    };
S5: processing[Def.root] := FALSE;
    if (BE = "back" /\ HasCompl(Def.root)) { call PEI(Def.root, NoneOcc, "direct"); };
S6: if (BE = "mp11") { call Drain(Def.root); };
S7: ret := 0;
S8: return;
}

\* ---------------------------------------------------------------- environment
{
M0: while (TRUE) {
       either {
          await Mode = "trace" /\ HasLine /\ CurLine.k = "reset";
          l := l + 1; wasreset := TRUE;
          active := [mm \in Machines |-> MD(mm).init];
          running := [mm \in Machines |-> FALSE];
          processing := [mm \in Machines |-> FALSE];
          mq := [mm \in Machines |-> <<>>];
          dq := [mm \in Machines |-> <<>>];
          curseq := [mm \in Machines |-> 0];
          pool := [mm \in Machines |-> <<>>];
          seqcnt := [mm \in Machines |-> 0];
          hist := [mm \in Machines |-> MD(mm).init];
          exc := FALSE; ret := 0; cbn := 0; obs := <<>>;
       } or {
          await ~running[Def.root];
          if (Mode = "trace") { await HasLine /\ CurLine.k = "call" /\ CurLine.op = "start"; l := l + 1; }
          else { await ncalls < MaxCalls; budget := 0; };
          ncalls := ncalls + 1; cbn := 0; obs := <<>>; wasreset := FALSE;
          path := Append(path, [call |-> "start"]);
          active[Def.root] := MD(Def.root).init || running[Def.root] := TRUE || processing[Def.root] := (BE = "mp11");
          call StartEntries();
       } or {
          await running[Def.root];
          with (et \in IF Mode = "trace" THEN (IF HasLine /\ CurLine.k = "call" /\ CurLine.op = "pe" THEN {CurLine.e} ELSE {}) ELSE EventTypes) {
             if (Mode = "trace") { l := l + 1; } else { await ncalls < MaxCalls; budget := Budget; };
             ncalls := ncalls + 1; cbn := 0; obs := <<>>; nextp := nextp + 1; wasreset := FALSE;
             path := Append(path, [call |-> et]);
             call PEI(Def.root, [t |-> et, p |-> IF Mode = "trace" THEN CurLine.p ELSE nextp], "direct");
          };
       };
M1:    if (Mode = "trace" /\ ~wasreset) {
          await HasLine /\ CurLine.k = "ret" /\ (CurLine.rv % 2) = (ret % 2) /\ ((CurLine.rv = 0) <=> (ret = 0))
                /\ \A mm \in Machines : IF mm \in DOMAIN CurLine.st THEN CurLine.st[mm] = Ids(mm, active[mm]) ELSE TRUE;
          l := l + 1;
       };
    }
}
} *)
 
 
 
 
 
 
 
 
====
