---- MODULE DefHier2d ----
R(s, e, t, g, a) == [src |-> s, ev |-> e, tgt |-> t, g |-> g, a |-> a, int |-> FALSE]
DefHier2d == [ root |-> "Top", events |-> {"E1", "E2", "E3", "E4"},
  M |-> [ Top |-> [ init |-> <<"St0">>,
                    kind |-> [St0 |-> "simple", Sub |-> "sub", St2 |-> "simple"],
                    defers |-> [St0 |-> {"E4"}, Sub |-> {}, St2 |-> {}],
                    table |-> << R("St0","E2","Sub","none","a5"), R("Sub","E1","St0","g3","a6"), R("Sub","E2","St0","none","a7"),
                                 R("Sub","E4","St2","none","a8"), R("St2","none","St0","g4","a9"), R("St2","E4","St0","none","a10"),
                                 R("St2","E2","Sub","none","a12") >>,
                    itab |-> [St0 |-> <<>>, Sub |-> <<>>, St2 |-> <<>>], smtab |-> <<>> ],
          Sub |-> [ init |-> <<"St10","St20">>,
                    kind |-> [St10 |-> "simple", St11 |-> "simple", St20 |-> "simple", St21 |-> "simple"],
                    defers |-> [St10 |-> {}, St11 |-> {}, St20 |-> {}, St21 |-> {}],
                    table |-> << R("St10","E1","St11","g1","a1"), R("St11","E1","St10","none","a2"),
                                 R("St20","E1","St21","g2","a3"), R("St21","E1","St20","none","a4"),
                                 R("St11","none","St10","g5","a11") >>,
                    itab |-> [St10 |-> <<>>, St11 |-> <<>>, St20 |-> <<>>, St21 |-> <<>>], smtab |-> <<>> ] ] ]
====
