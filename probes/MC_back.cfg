SPECIFICATION Spec
CONSTANT Mode = "mc"
CONSTANT BE = "back"
CONSTANT Def <- DefHier2
CONSTANT MaxCalls = 4
CONSTANT defaultInitValue = defaultInitValue
INVARIANT NoEscape
CHECK_DEADLOCK FALSE
