#include <iostream>
#include <fstream>
#include <sstream>
#include <vector>
#include <map>
#include <string>
#include <functional>
#include <stdexcept>
#ifdef USE_MP11
#include <boost/msm/backmp11/state_machine.hpp>
#else
#include <boost/msm/back/state_machine.hpp>
#include <boost/msm/back11/state_machine.hpp>
#endif
#include <boost/msm/front/state_machine_def.hpp>
#include <boost/msm/front/functor_row.hpp>
namespace msm = boost::msm; namespace mpl = boost::mpl; using namespace msm::front;
struct Dir { std::string op, on, e; int p=0; };
static std::ostream* OUT; static bool G[16]; static int CBN=0; static std::map<int,Dir> PLAN;
static std::function<void(const std::string&,int)> ROOT_PE;
template<int K> struct Ev{ int p=0; Ev(){} Ev(int x):p(x){} };
template<class E> struct EvName { static std::string n(){ return "start"; } static int p(const E&){return 0;} };
template<> struct EvName<msm::front::none> { static std::string n(){ return "none"; } static int p(const msm::front::none&){return 0;} };
template<int K> struct EvName<Ev<K>> { static std::string n(){ return "E"+std::to_string(K); } static int p(const Ev<K>& e){return e.p;} };
#ifndef USE_MP11
template<class S,class E> struct EvName<msm::back::direct_entry_event<S,E>> { static std::string n(){ return EvName<E>::n(); } static int p(const msm::back::direct_entry_event<S,E>& e){return EvName<E>::p(e.m_event);} };
template<class S,class E> struct EvName<msm::back11::direct_entry_event<S,E>> { static std::string n(){ return EvName<E>::n(); } static int p(const msm::back11::direct_entry_event<S,E>& e){return EvName<E>::p(e.m_event);} };
#endif
template<class F> std::string ids(F& f){ std::ostringstream o; o<<"[";
#ifdef USE_MP11
  auto& a=f.get_active_state_ids(); for(size_t i=0;i<a.size();i++) o<<(i?",":"")<<(int)a[i];
#else
  for(int i=0;i<F::nr_regions::value;i++) o<<(i?",":"")<<f.current_state()[i];
#endif
  o<<"]"; return o.str(); }
template<class F> void sendself(F& f,const std::string& e,int p){ int k=e[1]-'0';
  switch(k){ case 1: f.process_event(Ev<1>(p)); break; case 2: f.process_event(Ev<2>(p)); break; case 3: f.process_event(Ev<3>(p)); break; case 4: f.process_event(Ev<4>(p)); break; case 5: f.process_event(Ev<5>(p)); break; default: f.process_event(Ev<6>(p)); } }
template<class E,class F> void cb(const char* k,const char* mname,const std::string& id,const E& e,F& f,bool withids,bool r=true){
  ++CBN; Dir d; auto it=PLAN.find(CBN); if(it!=PLAN.end()) d=it->second; else d.op="none";
  *OUT<<"{\"k\":\""<<k<<"\",\"m\":\""<<mname<<"\",\"id\":\""<<id<<"\",\"e\":\""<<EvName<E>::n()<<"\",\"p\":"<<EvName<E>::p(e)<<",\"n\":"<<CBN<<",\"r\":"<<(r?"true":"false");
  if(withids) *OUT<<",\"ids\":"<<ids(f); else *OUT<<",\"ids\":[]";
  *OUT<<",\"d\":{\"op\":\""<<d.op<<"\",\"on\":\""<<d.on<<"\",\"e\":\""<<d.e<<"\",\"p\":"<<d.p<<"}}\n";
  if(d.op=="throw") throw std::runtime_error("boom");
  if(d.op=="pe"){ if(d.on=="root") ROOT_PE(d.e,d.p); else sendself(f,d.e,d.p); }
}
template<class F> struct MName;
template<int N> struct Gd { template<class E,class F,class S,class T> bool operator()(E const& e,F& f,S&,T&){ cb("g",MName<F>::n(),"g"+std::to_string(N),e,f,true,G[N]); return G[N]; } };
template<int N> struct Ac { template<class E,class F,class S,class T> void operator()(E const& e,F& f,S&,T&){ cb("a",MName<F>::n(),"a"+std::to_string(N),e,f,true); } };
#define BEHAV(NAME) template<class E,class F> void on_entry(E const& e,F& f){ cb("en",MName<F>::n(),NAME,e,f,true); } template<class E,class F> void on_exit(E const& e,F& f){ cb("ex",MName<F>::n(),NAME,e,f,true); }
struct St0 : state<> { BEHAV("St0") };  struct St1 : state<> { BEHAV("St1") };
struct St10 : state<> { BEHAV("St10") }; struct St20 : state<> { BEHAV("St20") };
struct St11 : state<>, explicit_entry<0> { BEHAV("St11") };
struct St21 : state<>, explicit_entry<1> { BEHAV("St21") };
struct EP : entry_pseudo_state<0> { BEHAV("EP") };
struct XP : exit_pseudo_state<Ev<5>> { BEHAV("XP") };
struct Sub_ : state_machine_def<Sub_> {
  BEHAV("Sub")
  typedef mpl::vector<St10,St20> initial_state;
#ifdef USE_MP11
  using history = shallow_history<Ev<2>,Ev<3>>;
#endif
  struct transition_table : mpl::vector<
    Row<St10,Ev<1>,St11,none,none>, Row<St11,Ev<1>,St10,none,none>,
    Row<St20,Ev<1>,St21,none,Gd<2>>, Row<St21,Ev<1>,St20,none,none>,
    Row<EP,Ev<6>,St11,Ac<13>,none>, Row<St11,Ev<5>,XP,Ac<14>,none> >{};
  template <class FSM,class E> void no_transition(E const& e,FSM& f,int s){ static const char* nm[]={"St10","St11","St20","St21","EP","XP"}; cb("nt",MName<FSM>::n(),nm[s],e,f,false); }
  template <class FSM,class E> void exception_caught(E const& e,FSM& f,std::exception&){ cb("xc",MName<FSM>::n(),"",e,f,false); }
};
#ifndef USE_MP11
typedef msm::back::ShallowHistory<mpl::vector<Ev<2>,Ev<3>>> HP;
#endif
#ifdef USE_MP11
typedef msm::backmp11::state_machine<Sub_> Sub;
#elif defined(USE_11)
typedef msm::back11::state_machine<Sub_,void,HP> Sub;
#else
typedef msm::back::state_machine<Sub_,HP> Sub;
#endif
struct Top_ : state_machine_def<Top_> {
  template<class E,class F> void on_entry(E const& e,F& f){ cb("en",MName<F>::n(),"Top",e,f,true); }
  typedef St0 initial_state;
  struct transition_table : mpl::vector<
    Row<St0,Ev<2>,Sub,Ac<5>,none>, Row<Sub,Ev<2>,St0,Ac<7>,none>,
    Row<St0,Ev<3>,Sub::direct<St11>,Ac<15>,none>,
    Row<St0,Ev<4>,mpl::vector<Sub::direct<St11>,Sub::direct<St21>>,Ac<16>,none>,
    Row<St0,Ev<6>,Sub::entry_pt<EP>,Ac<17>,none>,
    Row<Sub::exit_pt<XP>,Ev<5>,St1,Ac<18>,none>,
    Row<St1,Ev<2>,St0,none,none> >{};
  template <class FSM,class E> void no_transition(E const& e,FSM& f,int s){ static const char* nm[]={"St0","Sub","St1"}; cb("nt",MName<FSM>::n(),nm[s],e,f,false); }
  template <class FSM,class E> void exception_caught(E const& e,FSM& f,std::exception&){ cb("xc",MName<FSM>::n(),"",e,f,false); }
};
#ifdef USE_MP11
typedef msm::backmp11::state_machine<Top_> Top;
#elif defined(USE_11)
typedef msm::back11::state_machine<Top_> Top;
#else
typedef msm::back::state_machine<Top_> Top;
#endif
template<> struct MName<Top>{ static const char* n(){return "Top";} };
template<> struct MName<Sub>{ static const char* n(){return "Sub";} };
void parse_plan(const std::string& s){ PLAN.clear(); if(s.empty()||s=="-") return; std::stringstream ss(s); std::string item; while(std::getline(ss,item,',')){ std::stringstream is(item); std::string f; std::vector<std::string> v; while(std::getline(is,f,':')) v.push_back(f); Dir d; d.op=v[1]; if(d.op=="pe"){ d.on=v[2]; d.e=v[3]; d.p=std::stoi(v[4]); } PLAN[std::stoi(v[0])]=d; } }
int main(int argc,char**argv){ std::ifstream in(argv[1]); std::ofstream out(argv[2]); OUT=&out; std::string line; Top* t=nullptr;
 while(std::getline(in,line)){ std::stringstream ss(line); std::string op; ss>>op;
  if(op=="reset"){ delete t; t=nullptr; out<<"{\"k\":\"reset\"}\n"; continue; }
  if(!t){ t=new Top(); ROOT_PE=[&t](const std::string& e,int p){ sendself(*t,e,p); }; }
  CBN=0; PLAN.clear(); int rv=0; std::string e; int p=0;
  if(op=="start"){ std::string pl; ss>>pl; parse_plan(pl); out<<"{\"k\":\"call\",\"op\":\"start\"}\n"; t->start(); }
  else { std::string gv,pl; ss>>e>>p>>gv>>pl; for(size_t i=0;i<gv.size();i++) G[i+1]=gv[i]=='1'; parse_plan(pl);
    out<<"{\"k\":\"call\",\"op\":\"pe\",\"e\":\""<<e<<"\",\"p\":"<<p<<"}\n";
    int k=e[1]-'0';
    switch(k){ case 1: rv=t->process_event(Ev<1>(p)); break; case 2: rv=t->process_event(Ev<2>(p)); break; case 3: rv=t->process_event(Ev<3>(p)); break; case 4: rv=t->process_event(Ev<4>(p)); break; case 5: rv=t->process_event(Ev<5>(p)); break; default: rv=t->process_event(Ev<6>(p)); } }
  out<<"{\"k\":\"ret\",\"rv\":"<<rv<<",\"st\":{\"Top\":"<<ids(*t);
  bool subactive =
#ifdef USE_MP11
     t->get_active_state_ids()[0]==1;
#else
     t->current_state()[0]==1;
#endif
  if(subactive) out<<",\"Sub\":"<<ids(t->get_state<Sub&>());
  out<<"}}\n";
 }
 delete t; }
