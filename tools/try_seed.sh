#!/bin/bash
# try_seed.sh <seed_dir> <tier> <prop>...: apply a seeded change to /repo, run the given checks, undo the change.
# Evidence written while the change is applied is discarded (the committed evidence must come from the unchanged tree).
SD=$1; TIER=$2; shift 2
cd /verif
cp -r evidence /var/tmp/evidence.bak.$$
git -C /repo apply $SD/patch.diff || { echo "patch does not apply"; rm -rf /var/tmp/evidence.bak.$$; exit 2; }
for p in "$@"; do
  out=$(./check $p --tier $TIER 2>&1); rc=$?
  echo "$p rc=$rc $(echo "$out" | grep -c '^VIOLATION') violation line(s)"
  echo "$out" | grep -E "^VIOLATION|^TOOL-ERROR|^KNOWN" | head -3 | cut -c1-300
  for f in $(echo "$out" | grep '^VIOLATION' | sed 's/.*replay=//' | head -1); do
     python3 -c "
import json,sys; r=json.load(open('$f')); print('   first:', r['kind'], r['machine'], r['config'], r.get('invariant',''), 'line', r.get('last_matched_line'))
for l in r.get('trace_excerpt',[])[-3:]: print('     ', l[:160])"
  done
done
git -C /repo checkout -- . ; git -C /repo status --short | grep -v _build
rm -rf evidence; mv /var/tmp/evidence.bak.$$ evidence
