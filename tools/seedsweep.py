#!/usr/bin/env python3
"""seedsweep.py -- re-run every seeded change of /verif/seeded against the checks that are recorded as catching it (meta.json
"caught_by"), several at a time, and report the ones that are no longer caught.

Each lane works on its own scratch worktree of /repo (under /tmp, removed afterwards) and its own copy of /verif (under /var/tmp,
removed afterwards; the compiler cache is shared); the checks are pointed at the patched worktree with VERIF_REPO_INCLUDE.  /repo itself
and /verif/evidence are not touched.

  tools/seedsweep.py [--lanes 3] [--only C01-a,C05-b] [--tier quick]"""
import os, sys, json, subprocess, argparse, shutil, concurrent.futures as cf, queue, time
VERIF = os.path.dirname(os.path.dirname(os.path.abspath(__file__)))

def sh(cmd, **kw):
    return subprocess.run(cmd, shell=True, capture_output=True, text=True, **kw)

def main():
    ap = argparse.ArgumentParser()
    ap.add_argument("--lanes", type=int, default=3); ap.add_argument("--only", default=""); ap.add_argument("--tier", default="quick")
    ap.add_argument("--all-checks", action="store_true", help="run every check recorded in caught_by (default: stop at the first one that catches the change, the seed's own property first)")
    a = ap.parse_args()
    seeds = sorted(d for d in os.listdir(os.path.join(VERIF, "seeded")) if os.path.exists(os.path.join(VERIF, "seeded", d, "meta.json")))
    if a.only: seeds = [s for s in seeds if s in a.only.split(",")]
    q = queue.Queue()
    for s in seeds: q.put(s)
    results = {}
    def lane(k):
        wt = "/tmp/sw_wt_%d" % k; vd = "/var/tmp/sw_verif_%d" % k
        sh("git -C /repo worktree remove --force %s; rm -rf %s %s" % (wt, wt, vd))
        r = sh("git -C /repo worktree add --detach %s HEAD -q" % wt)
        if r.returncode != 0: raise SystemExit("worktree: " + r.stderr)
        sh("mkdir -p %s && rsync -a --exclude work --exclude build --exclude .git --exclude .ccache --exclude evidence/replay %s/ %s/" % (vd, VERIF, vd))
        os.makedirs(os.path.join(VERIF, ".ccache"), exist_ok=True)
        sh("ln -s %s/.ccache %s/.ccache" % (VERIF, vd))
        env = dict(os.environ, VERIF_REPO_INCLUDE=wt + "/include", VERIF_JOBS=str(max(4, (os.cpu_count() or 8) // a.lanes)))
        try:
            while True:
                try: s = q.get_nowait()
                except queue.Empty: break
                meta = json.load(open(os.path.join(VERIF, "seeded", s, "meta.json")))
                sh("git -C %s checkout -- . && git -C %s clean -fdq" % (wt, wt))
                r = sh("git -C %s apply %s" % (wt, os.path.join(VERIF, "seeded", s, "patch.diff")))
                if r.returncode != 0:
                    results[s] = {"error": "patch does not apply: " + r.stderr[-300:]}; print(s, "PATCH DOES NOT APPLY", flush=True); continue
                res = {}
                props = [p for p in [meta["property"]] if p in meta["caught_by"]] + [p for p in meta["caught_by"] if p != meta["property"]]
                for prop in props:
                    if not a.all_checks and any(x["rc"] == 1 for x in res.values()): break
                    t0 = time.time()
                    r = subprocess.run(["./check", prop, "--tier", a.tier], cwd=vd, env=env, capture_output=True, text=True)
                    nv = sum(1 for ln in r.stdout.splitlines() if ln.startswith("VIOLATION"))
                    res[prop] = {"rc": r.returncode, "violations": nv, "secs": round(time.time() - t0)}
                    if r.returncode == 2: res[prop]["tool_error"] = (r.stdout + r.stderr)[-400:]
                results[s] = res
                print(s, {p: (x["rc"], x["violations"]) for p, x in res.items()}, flush=True)
        finally:
            sh("git -C /repo worktree remove --force %s; rm -rf %s %s" % (wt, wt, vd))
    with cf.ThreadPoolExecutor(max_workers=a.lanes) as ex:
        list(ex.map(lane, range(a.lanes)))
    missed = sorted(s for s, r in results.items() if "error" in r or not any(x["rc"] == 1 for x in r.values()))
    partly = sorted(s for s, r in results.items() if "error" not in r and any(x["rc"] == 1 for x in r.values()) and any(x["rc"] != 1 for x in r.values()))
    json.dump({"tier": a.tier, "results": results, "not_caught": missed, "caught_by_fewer_checks_than_recorded": partly},
              open(os.path.join(VERIF, "seeded", "sweep.json"), "w"), indent=1, sort_keys=True)
    print("seeds: %d, not caught: %s, caught by fewer checks than recorded: %s" % (len(results), missed, partly))
    return 1 if missed else 0

if __name__ == "__main__":
    sys.exit(main())
