#!/usr/bin/env python3
"""coverage.py -- vacuity guard for the specification: run the model-checking jobs of every property plan with TLC's -coverage and
report the PlusCal labels (actions of spec/MSM.tla) that no job ever takes.  A label that is never taken is a part of the
specification no model-checking run exercises (it may still be exercised by trace validation, which is not measured here).

  tools/coverage.py [--props C01,C02,...] [--jobs 4]      writes /verif/coverage_report.json and prints a summary"""
import os, sys, re, json, argparse, shutil, concurrent.futures as cf
VERIF = os.path.dirname(os.path.dirname(os.path.abspath(__file__)))
sys.path.insert(0, os.path.join(VERIF, "harness")); sys.path.insert(0, os.path.join(VERIF, "gen"))
import core, tlc, gen, plan

def main():
    ap = argparse.ArgumentParser()
    ap.add_argument("--props", default=",".join(sorted(plan.PLAN)))
    ap.add_argument("--jobs", type=int, default=4)
    ap.add_argument("--timeout", type=int, default=900)
    ap.add_argument("--merge", action="store_true", help="add to the existing coverage_report.json instead of replacing it")
    a = ap.parse_args()
    wd = os.path.join(VERIF, "work", "coverage-%d" % os.getpid())
    v = core.Validator(wd)
    jobs = []; seen = set()
    for prop in a.props.split(","):
        pl = plan.PLAN[prop]; mcp = pl["mc"]
        for mname in pl["machines"]:
            d = core.load_def(mname); v.ensure_def(d)
            for c in ("back", "back_fct", "back11", "mp11", "mp11_fct"):
                if not core.supported(d, c) or c not in pl.get("configs", gen.CONFIGS): continue
                key = (mname, c, json.dumps(mcp, sort_keys=True, default=list))
                if key in seen: continue
                seen.add(key); jobs.append((prop, d, c, mcp))
    def work(job):
        prop, d, c, mcp = job
        n = tlc.write_mc(v.dir, d.name, c, "mc", v.vars, maxcalls=mcp["maxcalls"], budget=mcp["budget"], apis=mcp["apis"], dirops=mcp["dirops"],
                         direvs=mcp["direvs"], ninst=mcp.get("ninst", 1), percall=mcp.get("percall", True), invariants=[],
                         name="COV_%s_%s_%s" % (prop, d.name, c))
        rc, out, t = tlc.run_tlc(v.dir, n, workers=4, timeout=a.timeout, heap="6g", extra=("-coverage", "1"))
        cov = {}
        for m in re.finditer(r"^<(\w+) line \d+, col 1 to line \d+, col \d+ of module MSM>: (\d+):(\d+)", out, re.M):
            cov[m.group(1)] = max(cov.get(m.group(1), 0), int(m.group(2)))
        return prop, d.name, c, rc, cov, tlc.parse_stats(out)
    total = {}; runs = []
    try:
        with cf.ThreadPoolExecutor(max_workers=a.jobs) as ex:
            for prop, mname, c, rc, cov, st in ex.map(work, jobs):
                runs.append({"property": prop, "machine": mname, "config": c, "rc": rc, "distinct": st.get("distinct", 0), "labels_taken": sum(1 for x in cov.values() if x)})
                for k, x in cov.items():
                    fam = "mp11" if c.startswith("mp11") else "back"
                    total.setdefault(k, {"back": 0, "mp11": 0})[fam] += x
                print("%s %s %s rc=%d labels taken %d/%d" % (prop, mname, c, rc, sum(1 for x in cov.values() if x), len(cov)), flush=True)
    finally:
        shutil.rmtree(wd, ignore_errors=True)
    rp = os.path.join(VERIF, "coverage_report.json")
    if a.merge and os.path.exists(rp):
        old = json.load(open(rp))
        for k, x in old.get("label_counts", {}).items():
            t = total.setdefault(k, {"back": 0, "mp11": 0}); t["back"] += x["back"]; t["mp11"] += x["mp11"]
        runs = old.get("runs", []) + runs
    never = sorted(k for k, x in total.items() if x["back"] == 0 and x["mp11"] == 0)
    rep = {"labels": len(total), "never_taken": never,
           "taken_only_in_back": sorted(k for k, x in total.items() if x["back"] and not x["mp11"]),
           "taken_only_in_mp11": sorted(k for k, x in total.items() if x["mp11"] and not x["back"]),
           "label_counts": total, "runs": runs}
    json.dump(rep, open(os.path.join(VERIF, "coverage_report.json"), "w"), indent=1)
    print("labels: %d, never taken by any model-checking job: %s" % (len(total), never))

if __name__ == "__main__":
    main()
