#!/bin/bash
# confirm_seed.sh <id> <seed_dir>: independently confirm a seeded change: demo passes on HEAD, fails with the patch, existing suite passes with the patch.
# Works in a scratch worktree outside /repo and /verif which is removed afterwards.
ID=$1; SD=$2
WT=/tmp/cv_$ID
rm -rf $WT; git -C /repo worktree prune; git -C /repo worktree add --detach $WT HEAD -q || exit 2
STD=-std=c++17; grep -q "backmp11\|puml" $SD/demo.cpp && STD=-std=c++20
LIBS=""; grep -q "boost/archive" $SD/demo.cpp && LIBS="-lboost_serialization"
LOG=$SD/confirm.log; : > $LOG
g++ $STD -O0 -w -I$WT/include -o $WT/demo_ok $SD/demo.cpp $LIBS >>$LOG 2>&1; $WT/demo_ok >>$LOG 2>&1; echo "demo on unpatched tree: exit $?" | tee -a $LOG
git -C $WT apply $SD/patch.diff || { echo "patch does not apply" | tee -a $LOG; }
g++ $STD -O0 -w -I$WT/include -o $WT/demo_bad $SD/demo.cpp $LIBS >>$LOG 2>&1; $WT/demo_bad >>$LOG 2>&1; echo "demo on patched tree: exit $?" | tee -a $LOG
/verif/tools/baseline_off.sh $WT > $WT/suite.log 2>&1; rc=$?; tail -12 $WT/suite.log >> $LOG; echo "existing suite with the patch: exit $rc" | tee -a $LOG
git -C /repo worktree remove --force $WT
