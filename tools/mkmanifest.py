#!/usr/bin/env python3
"""mkmanifest.py -- (re)generate /verif/MANIFEST.json from harness/plan.py; properties without a plan go to not_applicable."""
import os, sys, json
VERIF = os.path.dirname(os.path.dirname(os.path.abspath(__file__)))
sys.path.insert(0, os.path.join(VERIF, "harness"))
import plan

NOTES = {
 "C01": "TLC checks the declarative priority-list/guard-walk formula P_C01 on every reachable state of the engine model for the corpus machines in every configuration (bounded calls, every guard valuation); the same formula and the full callback oracle are evaluated on traces recorded from drivers built from /repo/include.",
 "C02": "P_C02 (exit* action* entry* grouping, source exit last / target entry first, exactly once, same occurrence; nothing runs when nothing is taken) model-checked and evaluated on implementation traces; callback order at every nesting level is compared line by line with the specification.",
 "C03": "P_C03/P_C03b (entry/exit ledger in {0,1}, ledger = active tree at quiescence, region membership, balanced after stop) on the model and on traces with start/stop/restart histories; reported ids at every active level are compared with the documented numbering (IdOf) at every callback and return; the introspection calls of each back-end - backmp11 is_state_active<S> for every state and visit(), back / back11 visit_current_states() and get_state_by_id(id) - are compared at every return; random machine definitions in the conformance phase.",
 "C04": "P_C04 (no re-entrancy inside a transition, stored payloads dispatched exactly once in submission order, nothing left behind) with nested submissions from every callback position, enqueue_event and the drain APIs, model-checked with a directive budget and validated on traces.",
 "C05": "deferred queue / event pool semantics of the specification (sequence numbers, stable re-sort, restart-from-front) validated line by line against traces of deferring machines; P_C05 (a deferred occurrence is not reported through no_transition while pending).",
 "C06": "P_C06 (regions once in order; handled bit <=> some transition taken; zero <=> nothing consulted; no_transition once per region with the region's id, only when zero) on the model for all guard valuations and on traces.",
 "C07": "P_C01 + P_C02 + P_C07 on two- and three-level machines (inner-first candidates, single consumption, cascades) model-checked with 5 calls and validated on traces.",
 "C08": "history restore as specified by EntryActive (policy x entering event x named regions) validated against traces of three-region submachines under the three policies entered by plain, explicit, fork and entry-point rows, all six configurations.",
 "C09": "explicit entry / fork / entry point / exit point procedures of the specification validated against traces (callback order, original event in substate entries, forwarded exit-point event processed within the same call).",
 "C10": "P_C10 (never no_transition for the completion event; the completion event is the next thing the machine processes after a handled occurrence / after entering a state with completion rows - offered-and-swallowed while a terminate / interrupt state blocks the machine) on the model and on traces of completion chains with pending queued/deferred events, completion rows behind explicit entries and forks, and a blocked submachine with completion rows; known finding F8 (back: completion queued behind kept deferred events when the state is entered inside its submachine's entry) excused in exactly that pattern and re-confirmed by a probe.",
 "C11": "P_C11 (a blocked call runs no behaviour, changes nothing, returns handled) on the model and traces of a three-region machine with terminate / single- and multi-event interrupt states and of a machine whose submachine (with completion rows) gets blocked while the enclosing machine goes on.",
 "C12": "throw directive enumerated at every callback ordinal (mc: every position of every edge within the bounds; traces: random positions); P_C12 (no pending exception at return, no machine of the active tree left in the processing state) plus line-by-line validation of exception_caught calls, policy-defined active state and continuation behaviour.",
 "C13": "the same specification with only the configuration constant changed must accept the traces of every configuration on the same scripts (back, back+fct, back11, mp11, mp11+fct, mp11+fpa); any configuration-specific divergence is a rejection.",
 "C14": "one corpus definition is generated in three front-ends - functor rows (Row/Internal, none, ActionSequence_, And_/Or_/Not_), member-function rows (row, a_row, g_row, _row, the irow and row2 families, guards written as C++ expressions) and a PlantUML string (arrows of 1-4 dashes, guard before or after the actions, internal '-event' rows, nested submachine) - on every back-end; all variants' traces must be behaviours of the same specification constant (callback order, atom-by-atom guard evaluation under C++ precedence for 16 expression shapes, action sequences). Tokenizer: spec/Puml.tla enumerates every line of the documented transition grammar within bounds (quick: ~100 000 lines) and a run-time harness checks that detail::parse_row / count_actions / parse_action / parse_stt / parse_inits / count_* return exactly the intended fields. eUML is not generated (see DESIGN.md).",
 "C15": "copy construction and copy assignment as API calls of the specification (instance j becomes instance i, queue closures keep the object they were bound to); P_C15 (a call invokes no behaviour of, and changes nothing in, another machine object) model-checked with two instances; traces with up to three live instances validated; the known finding F6 (back/back11 closures stay bound to the source) is reproduced by the model, excused only in that exact pattern and re-confirmed by a probe on every run.",
 "C20": "event classes of size 8..512, alignment 1..64, trivially copyable / non-trivial / not-nothrow-movable / self-referential carry a canary, a payload-derived checksum and count constructions and destructions; the specification requires, at every API return, no lifetime error, live objects = stored occurrences (>= for the lazily erased backmp11 pool) and zero live objects after the last machine is destroyed, over histories of submit / defer / dispatch / copy / assign / stop / destroy; P_C04 (exactly once) model-checked on the same machine. Auxiliary oracle for the 'no invalid memory access' clause: the same drivers and scripts under ASan+UBSan (thorough: also valgrind).",
 "C16": "save / load through Boost.Serialization (text and binary archives) as an API call of the specification: the loaded machine gets the active ids at every level (also of inactive submachines), the history memory, the processing flag and the entry-counter data of the states / front-ends that opt in, and empty queues; P_C16 and the ledger invariant P_C03 model-checked with a save/load at every reachable configuration; traces of nested machines under each history policy with save/load at random points and continuations on both machines validated (back, back+fct, back11).",
 "C17": "P_C17 (default / OR query = some state of the active tree carries the flag; AND query = the active state of every region of the queried machine carries it) on the model; both answers for every flag are logged at every callback and every return and compared with the specification, also under the non-default switch policies; known finding F15 (backmp11 AND query with an active submachine) excused in exactly that situation and re-confirmed by a probe.",
 "C18": "Matches(trigger, dynamic type) with base-class chain, the built-in Kleene types and a user-declared Kleene type (is_kleene_event specialisation); candidates by table position (P_C01 with this Matches); dynamic type and payload of the event seen by every behaviour compared on traces, also after queueing and deferral (back, mp11); random definitions with base-class triggers.",
 "C19": "AfterPhase(policy, phase) determines the ids reported inside every behaviour; ids logged by each callback compared with the specification for the four policies on back, back+fct, back11, mp11 variants.",
}
LEVEL_NOTE = ("Trusted base: TLC 1.8, the PlusCal translation, gen/gen.py producing both the TLA+ constant and the C++ driver from one corpus file, "
              "g++/ccache, the instrumented runtime gen/rt/verif_rt.hpp. Exhaustive only within the bounds recorded in the evidence; "
              "'every machine definition' is approached by the corpus under /verif/corpus.")

def main():
    props = [json.loads(l) for l in open(os.path.join(VERIF, "properties.jsonl"))]
    pending = json.load(open(os.path.join(VERIF, "tools", "pending.json"))) if os.path.exists(os.path.join(VERIF, "tools", "pending.json")) else {}
    checks = []; na = []
    for p in props:
        pid = p["id"]
        if pid in plan.PLAN and pid not in pending:
            checks.append({
                "property_id": pid, "quick_cmd": "./check %s --tier quick" % pid, "thorough_cmd": "./check %s --tier thorough" % pid,
                "evidence_file": "/verif/evidence/%s.json" % pid, "replay_cmd_template": "./check replay {path}", "engine": "msm-tla",
                "level_claimed": {"category": "model_checking", "text": NOTES.get(pid, plan.PLAN[pid]["title"]), "design_ref": "DESIGN.md section 7"},
                "level_note": LEVEL_NOTE,
                "technique": "explicit TLA+/PlusCal specification model-checked with TLC + trace validation of the implementation against it"})
        else:
            na.append({"property_id": pid, "reason": pending.get(pid, "check not built yet (construction in progress, see DESIGN.md section 11)")})
    m = {"version": 1, "setup_cmd": "./setup.sh",
         "hooks": {"guard": "BOOSTORG_MSM_VERIF", "enable": "no hooks are needed: every observable is a user-supplied behaviour or a public accessor; checks build drivers against /repo/include",
                   "baseline_off_cmd": "./tools/baseline_off.sh", "source_commits": [], "add_only": True},
         "engines": [{"name": "msm-tla", "path": "/verif/spec/MSM.tla", "serves_properties": [c["property_id"] for c in checks],
                      "kind_free_text": "PlusCal model of the MSM engine (all back-ends), property formulas in spec/Props.tla, TLC model checking and trace validation"}],
         "checks": checks, "not_applicable": na,
         "notes": "see DESIGN.md; fixes to boostorg/msm are separate 'fix:' commits in /repo, recorded in known_findings.json"}
    json.dump(m, open(os.path.join(VERIF, "MANIFEST.json"), "w"), indent=1)
    print("claimed:", [c["property_id"] for c in checks]); print("not_applicable:", [n["property_id"] for n in na])

if __name__ == "__main__":
    main()
