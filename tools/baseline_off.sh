#!/bin/bash
# Runs the repository's own test suite exactly as BASELINE.json does (cmake+ninja, target "tests", ctest),
# with the verification guard BOOSTORG_MSM_VERIF *off* (nothing defines it), in a scratch build directory
# that is removed afterwards.  Exit 0 iff every ctest target passes.
set -u
REPO=${1:-/repo}
B=$(mktemp -d /var/tmp/msm_baseline.XXXXXX)
trap 'rm -rf "$B"' EXIT
cmake -G Ninja -S "$REPO" -B "$B" -DBUILD_TESTING=ON -DCMAKE_BUILD_TYPE=RelWithDebInfo -DCMAKE_CXX_FLAGS=-Wno-error >"$B/configure.log" 2>&1 || { cat "$B/configure.log"; exit 2; }
# a compiler process killed by memory pressure on a shared machine is not a verdict: retry with fewer jobs
cmake --build "$B" --target tests -j"$(nproc)" >"$B/build.log" 2>&1 || cmake --build "$B" --target tests -j4 >>"$B/build.log" 2>&1 || { tail -50 "$B/build.log"; exit 2; }
ctest --test-dir "$B" -j8 --timeout 900 --output-junit "$B/junit.xml" 2>&1 | tail -15
rc=${PIPESTATUS[0]}
# per-case totals from the Boost.Test executables
for exe in $(find "$B" -maxdepth 3 -type f -executable -name 'boost_msm*tests'); do
  n=$("$exe" --list_content 2>&1 | grep -c '\*$' || true); echo "$(basename $exe): listed=$n"
done
exit $rc
